import json,subprocess,struct,sys,os,hashlib,shutil
def tables(b):
    n=struct.unpack('>H',b[4:6])[0]; t={}
    for i in range(n):
        tag,cs,off,ln=struct.unpack('>4sIII',b[12+16*i:28+16*i]); t[tag.decode()]=b[off:off+ln]
    return t
srcs=[l.strip() for l in subprocess.run(['/verif/sim/target/release/fontc-sim','corpus'],capture_output=True,text=True,env=dict(os.environ,VERIF_HOME='/verif')).stdout.splitlines()]
srcs=[s for s in srcs if not s.startswith('extra:')][::6]
same=diff=skip=0
for s in srcs:
    plan={"property":"C01","source":s,"hash_seed":1,"epoch":1700000000,"source_date_epoch":1600000000,"workers":1,"strategy":{"name":"seq"},"yield_mask":0}
    json.dump(plan,open('/tmp/t/x.json','w'))
    r=subprocess.run(['/verif/sim/target/release/fontc-sim','run-one','/tmp/t/x.json','--keep-font','/tmp/t/x_sim.ttf'],capture_output=True,text=True)
    rec=json.loads(r.stdout)
    shutil.rmtree('/tmp/t/xb',ignore_errors=True)
    c=subprocess.run(['/repo/target/debug/fontc','--build-dir','/tmp/t/xb','-o','/tmp/t/x_cli.ttf','/repo/resources/testdata/'+s],capture_output=True,text=True,env=dict(os.environ,SOURCE_DATE_EPOCH='1600000000'))
    if rec['outcome']['class']!='ok' or c.returncode!=0:
        skip+=1
        if (rec['outcome']['class']=='ok') != (c.returncode==0): print('OUTCOME MISMATCH',s,rec['outcome'],c.returncode)
        continue
    a=tables(open('/tmp/t/x_sim.ttf','rb').read()); b=tables(open('/tmp/t/x_cli.ttf','rb').read())
    d=[t for t in sorted(set(a)|set(b)) if a.get(t)!=b.get(t) and t not in ('name','head')]
    if d: diff+=1; print('DIFF',s,d)
    else: same+=1
print('sources',len(srcs),'same (all tables but name/head)',same,'diff',diff,'both failed or skipped',skip)
