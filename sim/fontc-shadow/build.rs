// Replaces /repo/fontc/build.rs (vergen): pin the stamped version so that the bytes of
// the name table do not depend on whether /repo happens to be dirty.
fn main() {
    println!("cargo:rustc-env=VERGEN_GIT_DESCRIBE=fontc-v0.6.0-1-g0000000");
    println!("cargo:rerun-if-changed=build.rs");
}
