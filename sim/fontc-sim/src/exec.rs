//! One simulated execution of the real compiler under one plan.

use std::{
    collections::{BTreeMap, BTreeSet},
    panic::AssertUnwindSafe,
    path::{Path, PathBuf},
    sync::{Arc, Mutex, atomic::Ordering},
};

use serde::{Deserialize, Serialize};

use crate::{
    plan::{Opts, Plan},
    sha256, shims, sim,
};

/// The corpus: `resources/testdata` of the repository under test (`VERIF_REPO`, default /repo)
pub fn testdata() -> &'static Path {
    static ROOT: std::sync::OnceLock<PathBuf> = std::sync::OnceLock::new();
    ROOT.get_or_init(|| {
        let repo = std::env::var("VERIF_REPO").unwrap_or_else(|_| "/repo".to_string());
        Path::new(&repo).join("resources").join("testdata")
    })
}
pub const MAX_STEPS: usize = 5_000_000;

/// Where sources with stored-byte faults are read from (a private, mutated copy of the corpus)
pub static TREE_ROOT: std::sync::OnceLock<PathBuf> = std::sync::OnceLock::new();

#[derive(Clone, Debug, Default, Serialize, Deserialize, PartialEq)]
pub struct Outcome {
    /// ok | err | panic | deadlock | steps-exhausted | signal | cpu-exhausted | crashed | harness
    pub class: String,
    pub detail: String,
}

#[derive(Clone, Debug, Default, Serialize, Deserialize)]
pub struct ExecRecord {
    pub outcome: Outcome,
    pub font_sha: Option<String>,
    pub font_len: usize,
    /// whether read-fonts accepts the output as an sfnt, and its table tags
    pub font_ok: Option<bool>,
    pub font_tables: Vec<String>,
    /// what is structurally wrong with the output font, if anything (see oracle::font_problems)
    #[serde(default)]
    pub font_problems: Vec<String>,
    #[serde(skip)]
    pub font: Option<Vec<u8>>,
    pub steps: usize,
    pub tasks: usize,
    pub max_runnable: usize,
    pub log_hash: u64,
    pub decisions_hash: u64,
    pub job_order_hash: u64,
    pub jobs: Vec<String>,
    pub n_access: u64,
    pub access_by_op: BTreeMap<String, u64>,
    pub reads: BTreeMap<String, BTreeMap<String, BTreeSet<String>>>,
    pub scans: BTreeMap<String, BTreeMap<String, BTreeSet<u64>>>,
    pub scan_tab: BTreeMap<u64, Vec<(String, String)>>,
    pub races: Vec<sim::Race>,
    pub coord_states: Vec<u64>,
    pub probes: BTreeMap<String, u64>,
    pub faults_fired: BTreeMap<String, u64>,
    pub fault_log: Vec<String>,
    pub clock_reads: u64,
    pub entropy_calls: u64,
    pub sim_clock_ns: u64,
    pub storage: Vec<sim::StorageOp>,
    pub readbacks: Vec<(String, Option<bool>, String)>,
    pub getters: BTreeMap<String, u64>,
    pub writes_by_job: BTreeMap<String, u32>,
    pub rewriters: Vec<String>,
    /// conflicting access pairs that nothing the scheduler was told orders: (item, job, op, job, op)
    pub unordered_pairs: Vec<(String, String, String, String, String)>,
    pub conflicting_pairs_checked: u64,
    /// items whose value may be dropped from memory after persisting without anyone noticing,
    /// if persistence is faithful: written, read only through get(), never scanned
    pub evictable: Vec<String>,
    pub deviations: Vec<(usize, usize)>,
    pub panics: Vec<String>,
    pub out_path: String,
    pub out_existed_before: bool,
    pub log: Option<Vec<String>>,
    pub build_files: Vec<String>,
}

static PANICS: Mutex<Vec<String>> = Mutex::new(Vec::new());

pub fn install_panic_hook() {
    std::panic::set_hook(Box::new(|info| {
        let msg = if let Some(s) = info.payload().downcast_ref::<&str>() {
            s.to_string()
        } else if let Some(s) = info.payload().downcast_ref::<String>() {
            s.clone()
        } else {
            "Box<dyn Any>".to_string()
        };
        let loc = info.location().map(|l| format!("{}:{}", l.file(), l.line())).unwrap_or_default();
        if let Ok(mut p) = PANICS.lock() {
            if p.len() < 64 {
                let mut m = msg;
                if m.len() > 600 {
                    let mut cut = 600;
                    while !m.is_char_boundary(cut) {
                        cut -= 1;
                    }
                    m.truncate(cut);
                    m.push('…');
                }
                p.push(format!("{m} @ {loc}"));
            }
        }
    }));
}

pub fn flags_from(opts: &Opts) -> (fontc::Flags, fontc::Flags) {
    use fontc::Flags;
    let mut flags = Flags::default();
    let mut disable = Flags::empty();
    for e in &opts.enable {
        match e.as_str() {
            "flatten" => flags.set(Flags::FLATTEN_COMPONENTS, true),
            "decompose" => flags.set(Flags::DECOMPOSE_COMPONENTS, true),
            "decompose_transformed" => flags.set(Flags::DECOMPOSE_TRANSFORMED_COMPONENTS, true),
            "keep_direction" => flags.set(Flags::KEEP_DIRECTION, true),
            "erase_open_corners" => flags.set(Flags::ERASE_OPEN_CORNERS, true),
            "propagate_anchors" => flags.set(Flags::PROPAGATE_ANCHORS, true),
            other => panic!("unknown flag to enable: {other}"),
        }
    }
    for d in &opts.disable {
        match d.as_str() {
            "prefer_simple" => flags.set(Flags::PREFER_SIMPLE_GLYPHS, false),
            "production_names" => flags.set(Flags::PRODUCTION_NAMES, false),
            "flatten" => disable.set(Flags::FLATTEN_COMPONENTS, true),
            "erase_open_corners" => disable.set(Flags::ERASE_OPEN_CORNERS, true),
            "propagate_anchors" => disable.set(Flags::PROPAGATE_ANCHORS, true),
            other => panic!("unknown flag to disable: {other}"),
        }
    }
    (flags, disable)
}

pub struct Layout {
    pub source: PathBuf,
    pub build_dir: PathBuf,
    pub out_file: PathBuf,
}

/// Paths as the compiler sees them: relative to the run root (the sandbox's parent), which
/// is the working directory during an execution. Absolute sandbox paths contain a process
/// id, and path strings end up as hash-map keys inside the compiler; relative ones make an
/// execution a function of its plan alone.
pub fn layout(plan: &Plan, sandbox: &Path) -> Layout {
    let sandbox = Path::new(sandbox.file_name().expect("sandbox name"));
    let build_dir = sandbox.join("build");
    let out_file = if plan.options.output_in_ir_dir {
        build_dir.join("font.ttf")
    } else {
        sandbox.join("out").join("font.ttf")
    };
    let source = if plan.source.starts_with("gen:") {
        sandbox.join("gen").join("Gen.designspace")
    } else if let Some(rel) = plan.source.strip_prefix("sandbox:") {
        sandbox.join("src").join(rel)
    } else if let Some(rel) = plan.source.strip_prefix("extra:") {
        crate::workload::extra_sources_dir().expect("the sources directory kept with the checks").join(rel)
    } else if let Some(rel) = plan.source.strip_prefix("hostile:") {
        crate::workload::hostile_cases_dir().expect("the hostile cases kept with the checks").join(rel)
    } else if plan.source.starts_with('/') {
        PathBuf::from(&plan.source)
    } else if plan.faults.iter().any(|f| f.kind.starts_with("src-")) {
        Path::new("tree").join(&plan.source)
    } else {
        testdata().join(&plan.source)
    };
    Layout { source, build_dir, out_file }
}

fn options_for(plan: &Plan, lay: &Layout) -> fontc::Options {
    let (flags, disable) = flags_from(&plan.options);
    fontc::Options {
        flags,
        flags_to_disable: disable.into(),
        skip_features: plan.options.skip_features,
        compile_debg: plan.options.compile_debg,
        output_file: Some(lay.out_file.clone()),
        timing_file: plan.options.emit_timing.then(|| lay.build_dir.join("threads.svg")),
        ir_dir: plan.options.emit_ir.then(|| lay.build_dir.clone()),
        debug_dir: plan.options.emit_debug.then(|| lay.build_dir.join("debug/")),
    }
}

fn list_files(dir: &Path, base: &Path, out: &mut Vec<String>) {
    let Ok(rd) = std::fs::read_dir(dir) else { return };
    let mut entries: Vec<_> = rd.filter_map(|e| e.ok()).collect();
    entries.sort_by_key(|e| e.file_name());
    for e in entries {
        let p = e.path();
        if p.is_dir() {
            list_files(&p, base, out);
        } else if let Ok(rel) = p.strip_prefix(base) {
            out.push(rel.to_string_lossy().to_string());
        }
    }
}

/// Run the plan in this process. The caller provides an empty-or-prepared sandbox.
pub fn execute(plan: &Plan, sandbox: &Path, verbose: bool) -> ExecRecord {
    let lay = layout(plan, sandbox);
    std::fs::create_dir_all(sandbox).ok();
    std::env::set_current_dir(sandbox.parent().expect("run root")).expect("enter the run root");
    if plan.options.emit_timing {
        // the CLI's build directory normally exists because the default output lives in it
        std::fs::create_dir_all(&lay.build_dir).ok();
    }
    let out_existed_before = lay.out_file.exists();

    // environment the simulator owns
    unsafe {
        match plan.source_date_epoch {
            Some(v) => std::env::set_var("SOURCE_DATE_EPOCH", v.to_string()),
            None => std::env::remove_var("SOURCE_DATE_EPOCH"),
        }
    }
    fontc::verif::set_workers(plan.workers);
    PANICS.lock().unwrap().clear();
    sim::begin(plan, verbose);
    shims::set_clock(plan.epoch);
    shims::set_entropy(plan.hash_seed);
    shims::CLOCK_READS.store(0, Ordering::SeqCst);
    shims::ENTROPY_CALLS.store(0, Ordering::SeqCst);

    let result: Arc<Mutex<Option<Result<(), String>>>> = Arc::new(Mutex::new(None));
    let result2 = result.clone();
    let plan2 = plan.clone();
    let source = lay.source.clone();
    let lay_build = lay.build_dir.clone();
    let lay_out = lay.out_file.clone();

    let th = std::thread::Builder::new()
        .name("sim-exec".into())
        .stack_size(64 << 20)
        .spawn(move || {
            let mut cfg = shuttle::Config::new();
            // the CLI runs create_source on the 8 MiB main thread
            cfg.stack_size = 8 << 20;
            cfg.failure_persistence = shuttle::FailurePersistence::None;
            cfg.max_steps = shuttle::MaxSteps::FailAfter(plan2.max_steps.unwrap_or(MAX_STEPS));
            cfg.silence_warnings = true;
            let sched = sim::SimScheduler::new(plan2.strategy.seed);
            let runner = shuttle::Runner::new(sched, cfg);
            let plan3 = plan2.clone();
            std::panic::catch_unwind(AssertUnwindSafe(move || {
                runner.run(move || {
                    struct InExec;
                    impl Drop for InExec {
                        fn drop(&mut self) {
                            sim::IN_EXEC.store(false, Ordering::SeqCst);
                        }
                    }
                    sim::IN_EXEC.store(true, Ordering::SeqCst);
                    let _guard = InExec;
                    let lay = Layout {
                        source: source.clone(),
                        build_dir: lay_build.clone(),
                        out_file: lay_out.clone(),
                    };
                    let options = options_for(&plan3, &lay);
                    let res = match fontc::Input::new(&lay.source) {
                        Ok(input) => fontc::run(input, options, fontc::JobTimer::new()),
                        Err(e) => Err(e),
                    };
                    *result2.lock().unwrap() = Some(res.map_err(|e| e.to_string()));
                });
            }))
            .map_err(|e| {
                if let Some(s) = e.downcast_ref::<&str>() {
                    s.to_string()
                } else if let Some(s) = e.downcast_ref::<String>() {
                    s.clone()
                } else {
                    "Box<dyn Any>".to_string()
                }
            })
        })
        .expect("spawn execution thread");
    let joined = th.join();
    sim::IN_EXEC.store(false, Ordering::SeqCst);
    let state = sim::end();

    let outcome = match joined {
        Err(_) => Outcome { class: "panic".into(), detail: "execution thread died".into() },
        Ok(Err(msg)) => {
            let class = if msg.starts_with("deadlock!") {
                "deadlock"
            } else if msg.starts_with("exceeded max_steps") {
                "steps-exhausted"
            } else {
                "panic"
            };
            Outcome { class: class.into(), detail: msg }
        }
        Ok(Ok(())) => match result.lock().unwrap().take() {
            Some(Ok(())) => Outcome { class: "ok".into(), detail: String::new() },
            Some(Err(e)) => Outcome { class: "err".into(), detail: e },
            None => Outcome { class: "harness".into(), detail: "run finished without a result".into() },
        },
    };
    let outcome = match &state.diverged {
        Some(d) => Outcome { class: "harness".into(), detail: d.clone() },
        None => outcome,
    };

    let font = std::fs::read(&lay.out_file).ok();
    let (font_ok, font_tables) = match font.as_ref() {
        Some(bytes) => match write_fonts::read::FontRef::new(bytes) {
            Ok(f) => {
                let tags: Vec<String> = f.table_directory().table_records().iter().map(|r| r.tag().to_string()).collect();
                (Some(!tags.is_empty()), tags)
            }
            Err(_) => (Some(false), vec![]),
        },
        None => (None, vec![]),
    };
    let font_problems = match (font.as_ref(), font_ok) {
        (Some(bytes), Some(true)) => crate::oracle::font_problems(bytes),
        _ => vec![],
    };
    let mut build_files = Vec::new();
    list_files(&lay.build_dir, &lay.build_dir, &mut build_files);

    let mut dh = 0xcbf29ce484222325u64;
    for d in &state.decisions {
        dh = (dh ^ *d as u64).wrapping_mul(0x100000001b3);
    }
    let tasks = state.decisions.iter().copied().max().map(|m| m as usize + 1).unwrap_or(0);
    let job_order_hash = sha256::fnv(
        format!("{}|{}", state.job_order.join("\u{1}"), state.job_end_order.join("\u{1}")).as_bytes(),
    );
    let mut coord_states: Vec<u64> = state.coord_states.iter().copied().collect();
    coord_states.sort();

    // structural ordering check over this execution's accesses
    let mut unordered_pairs = Vec::new();
    let mut pairs_checked = 0u64;
    if outcome.class == "ok" {
        let order = crate::order::Order::build(&state.job_order, &state.job_info);
        let op = |w: bool| if w { "write" } else { "read" }.to_string();
        let mut seen: BTreeSet<(String, String, String)> = BTreeSet::new();
        let mut items: Vec<(&String, &Vec<(String, bool)>)> = state.accesses.iter().collect();
        items.sort();
        for (item, accs) in items {
            for (i, (a, aw)) in accs.iter().enumerate() {
                for (b, bw) in accs.iter().skip(i + 1) {
                    if a == b || !(*aw || *bw) || a == sim::MAIN || b == sim::MAIN {
                        continue;
                    }
                    pairs_checked += 1;
                    if !order.ordered(a, b) && seen.insert((item.clone(), a.clone().min(b.clone()), a.clone().max(b.clone()))) {
                        unordered_pairs.push((item.clone(), a.clone(), op(*aw), b.clone(), op(*bw)));
                    }
                }
            }
        }
        // whole-map scans against writers of any entry of that map
        let mut tys: Vec<&&'static str> = state.ty_scanners.keys().collect();
        tys.sort();
        for ty in tys {
            let scanners = &state.ty_scanners[*ty];
            let Some(writers) = state.ty_writers.get(*ty) else { continue };
            for s in scanners {
                for w in writers {
                    if s == w {
                        continue;
                    }
                    pairs_checked += 1;
                    let key = (format!("{ty}:*"), s.clone().min(w.clone()), s.clone().max(w.clone()));
                    if !order.ordered(s, w) && seen.insert(key) {
                        unordered_pairs.push((format!("{ty}:*"), w.clone(), "write".into(), s.clone(), "scan".into()));
                    }
                }
            }
        }
    }

    ExecRecord {
        outcome,
        font_sha: font.as_ref().map(|b| sha256::hex(b)),
        font_len: font.as_ref().map(|b| b.len()).unwrap_or(0),
        font_ok,
        font_tables,
        font_problems,
        font,
        steps: state.step,
        tasks,
        max_runnable: state.max_tasks_runnable,
        log_hash: state.log_hash,
        decisions_hash: dh,
        job_order_hash,
        jobs: state.job_order.clone(),
        n_access: state.n_access,
        access_by_op: state.access_by_op.clone(),
        reads: state.reads.clone(),
        scans: state.scans.clone(),
        scan_tab: state.scan_tab.clone(),
        races: state.races.clone(),
        coord_states,
        probes: state.probes.clone(),
        faults_fired: state.faults_fired.clone(),
        fault_log: state.fault_log.clone(),
        clock_reads: shims::CLOCK_READS.load(Ordering::SeqCst),
        entropy_calls: shims::ENTROPY_CALLS.load(Ordering::SeqCst),
        sim_clock_ns: shims::clock_ticks() * 1000,
        storage: state.storage.clone(),
        readbacks: state.readbacks.clone(),
        getters: state.getters.clone(),
        writes_by_job: state.writes_by_job.clone(),
        rewriters: state.rewriters.iter().cloned().collect(),
        unordered_pairs,
        conflicting_pairs_checked: pairs_checked,
        evictable: state
            .written_items
            .iter()
            .filter(|i| state.get_reads.contains(*i) && !state.bare_reads.contains(*i))
            .filter(|i| !state.scanned_tys.iter().any(|ty| i.starts_with(&format!("{ty}:"))))
            .filter(|i| !i.contains("ExtraFeaTables"))
            .cloned()
            .collect(),
        deviations: state.deviations.clone(),
        panics: PANICS.lock().unwrap().clone(),
        out_path: lay.out_file.to_string_lossy().to_string(),
        out_existed_before,
        log: state.log.clone(),
        build_files,
    }
}
