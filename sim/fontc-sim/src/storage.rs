//! The storage seam: every writer/reader the IR layer opens goes through these wrappers.

use std::{
    io::{self, Read, Write},
    path::{Path, PathBuf},
};

use crate::sim;

pub struct SimWriter {
    id: String,
    path: PathBuf,
    inner: Box<dyn Write>,
    written: usize,
    /// (kind, arg)
    fault: Option<(String, i64)>,
}

impl Write for SimWriter {
    fn write(&mut self, buf: &[u8]) -> io::Result<usize> {
        if let Some((kind, arg)) = self.fault.clone() {
            match kind.as_str() {
                "write-err" => {
                    return Err(io::Error::from_raw_os_error(if arg != 0 { arg as i32 } else { libc::ENOSPC }));
                }
                "write-short" => {
                    let room = (arg.max(0) as usize).saturating_sub(self.written);
                    if room == 0 {
                        return Err(io::Error::from_raw_os_error(libc::ENOSPC));
                    }
                    let n = room.min(buf.len());
                    let n = self.inner.write(&buf[..n])?;
                    self.written += n;
                    return Ok(n);
                }
                _ => {}
            }
        }
        let n = self.inner.write(buf)?;
        self.written += n;
        Ok(n)
    }

    fn flush(&mut self) -> io::Result<()> {
        self.inner.flush()
    }
}

impl Drop for SimWriter {
    fn drop(&mut self) {
        let _ = (&self.id, &self.path);
    }
}

pub fn wrap_writer(id: String, path: &Path, inner: Box<dyn Write>) -> Box<dyn Write> {
    sim::storage_event("open-write", &id, path);
    let fault = sim::with_sim(|s| {
        let name = path.file_name().and_then(|n| n.to_str()).unwrap_or("").to_string();
        let opened = s.storage.iter().filter(|o| o.op == "open-write").count().saturating_sub(1);
        let faults = s.plan_ref().faults.clone();
        for f in faults {
            if f.kind != "write-err" && f.kind != "write-short" {
                continue;
            }
            let hit = match &f.target {
                Some(t) => name == *t || id == *t,
                None => f.nth == opened,
            };
            if hit {
                s.fire(&f.kind, format!("{} on {name}", f.kind));
                return Some((f.kind.clone(), f.arg));
            }
        }
        None
    })
    .flatten();
    Box::new(SimWriter { id, path: path.to_path_buf(), inner, written: 0, fault })
}

pub struct SimReader {
    inner: Box<dyn Read>,
}

impl Read for SimReader {
    fn read(&mut self, buf: &mut [u8]) -> io::Result<usize> {
        self.inner.read(buf)
    }
}

pub fn wrap_reader(id: String, path: &Path, inner: Box<dyn Read>) -> Box<dyn Read> {
    sim::storage_event("open-read", &id, path);
    Box::new(SimReader { inner })
}

/// A simulated crash: the process stops dead. No destructor runs, so whatever the
/// buffered writers have not handed to the OS yet is lost and half-written files stay.
pub fn crash_now() -> ! {
    unsafe { libc::_exit(137) }
}
