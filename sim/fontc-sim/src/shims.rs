//! libc symbols the simulator owns: entropy (hash seeds) and clocks.
//!
//! std is linked statically into this binary, so its references to `getrandom` and
//! `clock_gettime` resolve to the definitions below instead of glibc's.

use std::sync::atomic::{AtomicBool, AtomicI64, AtomicU64, Ordering};

static ENTROPY_ON: AtomicBool = AtomicBool::new(false);
static ENTROPY_STATE: AtomicU64 = AtomicU64::new(0);
pub static ENTROPY_CALLS: AtomicU64 = AtomicU64::new(0);

static CLOCK_ON: AtomicBool = AtomicBool::new(false);
static CLOCK_EPOCH_S: AtomicI64 = AtomicI64::new(0);
static CLOCK_TICKS: AtomicU64 = AtomicU64::new(0);
pub static CLOCK_READS: AtomicU64 = AtomicU64::new(0);

/// One tick of simulated time per clock read
const TICK_NS: u64 = 1_000;

pub fn splitmix(state: &mut u64) -> u64 {
    *state = state.wrapping_add(0x9E3779B97F4A7C15);
    let mut z = *state;
    z = (z ^ (z >> 30)).wrapping_mul(0xBF58476D1CE4E5B9);
    z = (z ^ (z >> 27)).wrapping_mul(0x94D049BB133111EB);
    z ^ (z >> 31)
}

/// From now on all entropy handed to this process is a function of `seed`.
pub fn set_entropy(seed: u64) {
    ENTROPY_STATE.store(seed, Ordering::SeqCst);
    ENTROPY_ON.store(true, Ordering::SeqCst);
}

/// From now on the wall clock starts at `epoch_s` and both clocks advance one tick per read.
pub fn set_clock(epoch_s: i64) {
    CLOCK_EPOCH_S.store(epoch_s, Ordering::SeqCst);
    CLOCK_TICKS.store(0, Ordering::SeqCst);
    CLOCK_ON.store(true, Ordering::SeqCst);
}

pub fn clock_ticks() -> u64 {
    CLOCK_TICKS.load(Ordering::SeqCst)
}

#[unsafe(no_mangle)]
pub unsafe extern "C" fn getrandom(buf: *mut libc::c_void, len: libc::size_t, flags: libc::c_uint) -> libc::ssize_t {
    if !ENTROPY_ON.load(Ordering::SeqCst) {
        return unsafe { libc::syscall(libc::SYS_getrandom, buf, len, flags) as libc::ssize_t };
    }
    ENTROPY_CALLS.fetch_add(1, Ordering::SeqCst);
    let out = unsafe { std::slice::from_raw_parts_mut(buf as *mut u8, len) };
    for chunk in out.chunks_mut(8) {
        // fetch_update so two threads never see the same state
        let prev = ENTROPY_STATE
            .fetch_update(Ordering::SeqCst, Ordering::SeqCst, |s| Some(s.wrapping_add(0x9E3779B97F4A7C15)))
            .unwrap();
        let mut s = prev;
        let v = splitmix(&mut s).to_le_bytes();
        chunk.copy_from_slice(&v[..chunk.len()]);
    }
    len as libc::ssize_t
}

#[unsafe(no_mangle)]
pub unsafe extern "C" fn clock_gettime(clk: libc::clockid_t, ts: *mut libc::timespec) -> libc::c_int {
    let simulated = CLOCK_ON.load(Ordering::SeqCst)
        && matches!(
            clk,
            libc::CLOCK_REALTIME
                | libc::CLOCK_REALTIME_COARSE
                | libc::CLOCK_MONOTONIC
                | libc::CLOCK_MONOTONIC_COARSE
                | libc::CLOCK_MONOTONIC_RAW
                | libc::CLOCK_BOOTTIME
        );
    if !simulated {
        return unsafe { libc::syscall(libc::SYS_clock_gettime, clk, ts) as libc::c_int };
    }
    CLOCK_READS.fetch_add(1, Ordering::SeqCst);
    let ticks = CLOCK_TICKS.fetch_add(1, Ordering::SeqCst) + 1;
    let ns = ticks * TICK_NS;
    let (base, extra_s) = match clk {
        libc::CLOCK_REALTIME | libc::CLOCK_REALTIME_COARSE => (CLOCK_EPOCH_S.load(Ordering::SeqCst), 0),
        // a machine that has been up for a day
        _ => (86_400, 0),
    };
    unsafe {
        (*ts).tv_sec = base + extra_s + (ns / 1_000_000_000) as i64;
        (*ts).tv_nsec = (ns % 1_000_000_000) as i64;
    }
    0
}
