//! Seeded generation of designspace + UFO sources. Their purpose is more jobs, more
//! dynamically created jobs, more entries per hash map, and the naming and kerning-location
//! stress that C14 quantifies over — not input-space coverage of the pure properties.

use std::{fmt::Write as _, fs, path::Path};

use crate::plan::Prng;

/// Glyph names that stress file naming: case variants, reserved characters, device names,
/// names that spell another name's escape, non-ASCII, very long.
const STRESS_NAMES: &[&str] = &[
    "a", "A", "aa", "Aa", "aA", "AA", "a_b", "A_B", "A_b", "con", "CON", "Con", "nul", "nul.x", "com5", "COM5", "prn", "aux", "lpt1",
    "a.b", "a/b", "a\\b", "a:b", "a*b", "a?b", "a\"b", "a%22b", "a%2Fb", "a%2fb", "a<b", "a>b", "a|b", "a b", ".a", "a.", "a..b",
    "\u{e4}", "\u{c4}", "\u{e9}", "\u{c9}", "\u{df}", "SS", "ss", "\u{1c6}", "\u{1c5}", "\u{1c4}", "i", "I", "\u{131}", "\u{130}",
    "a%", "a%%", "a%25", "a^", "a^A", "_", "__", "A_", "_A", "a_", "a^b", "a%5Eb", "x.yml", "x.glyf", "font", "glyph_order",
    "a\u{301}", "\u{e1}", "n.0", "n", "N.0",
];

fn xml(s: &str) -> String {
    s.replace('&', "&amp;").replace('<', "&lt;").replace('>', "&gt;").replace('"', "&quot;")
}

struct Master {
    file: String,
    /// user-space coordinates per axis
    loc: Vec<f64>,
    /// 0..1 interpolation factors per axis used to draw
    t: Vec<f64>,
}

struct Axis {
    tag: &'static str,
    name: &'static str,
    min: f64,
    def: f64,
    max: f64,
}

#[derive(Clone)]
struct GlyphSpec {
    name: String,
    file: String,
    codepoint: Option<u32>,
    export: bool,
    /// number of points of the single contour (0 = none)
    points: usize,
    /// (base index, dx, dy, scale, flip)
    components: Vec<(usize, i32, i32, f64, bool)>,
    anchor_top: bool,
    is_mark: bool,
    width: i32,
    seed: u64,
    /// a second code point (profile "features")
    extra_cp: Option<u32>,
    /// further anchors: (name, x, y)
    anchors: Vec<(String, i32, i32)>,
}

pub fn profiles() -> &'static [&'static str] {
    &["names", "kern", "composites", "big", "mixed", "features"]
}

/// Write a source tree for (seed, profile) under `dir`; returns the designspace file name.
pub fn materialize(seed: u64, profile: &str, dir: &Path) -> String {
    let mut rng = Prng::new(seed).fork(profile);
    fs::create_dir_all(dir).expect("gen dir");

    // ---- axes and masters
    let all_axes = [
        Axis { tag: "wght", name: "Weight", min: 100.0, def: 400.0, max: 900.0 },
        Axis { tag: "wdth", name: "Width", min: 75.0, def: 100.0, max: 125.0 },
        Axis { tag: "opsz", name: "Optical Size", min: 8.0, def: 8.0, max: 72.0 },
    ];
    let n_axes = match profile {
        "kern" => 1 + rng.below(2),
        _ => 1 + rng.below(3),
    };
    let axes = &all_axes[..n_axes];
    let mut masters: Vec<Master> = Vec::new();
    let t_of = |a: &Axis, v: f64| (v - a.min) / (a.max - a.min);
    let mut push_master = |masters: &mut Vec<Master>, loc: Vec<f64>| {
        if masters.iter().any(|m| m.loc == loc) {
            return;
        }
        let t = loc.iter().zip(axes.iter()).map(|(v, a)| t_of(a, *v)).collect();
        let file = format!("M{}.ufo", masters.len());
        masters.push(Master { file, loc, t });
    };
    let default_loc: Vec<f64> = axes.iter().map(|a| a.def).collect();
    push_master(&mut masters, default_loc.clone());
    for (i, a) in axes.iter().enumerate() {
        for extreme in [a.min, a.max] {
            if extreme != a.def && (rng.chance(3, 4) || masters.len() < 2) {
                let mut l = default_loc.clone();
                l[i] = extreme;
                push_master(&mut masters, l);
            }
        }
    }
    if n_axes >= 2 && rng.chance(1, 2) {
        // a corner
        let l: Vec<f64> = axes.iter().map(|a| a.max).collect();
        push_master(&mut masters, l);
    }
    if rng.chance(1, 3) {
        // an interior master
        let l: Vec<f64> = axes.iter().map(|a| ((a.def + a.max) / 2.0).round()).collect();
        push_master(&mut masters, l);
    }
    if profile == "kern" || rng.chance(1, 6) {
        // masters whose normalized locations sit very close together
        let a = &axes[0];
        for delta in [1.0, 2.0, 3.0] {
            if rng.chance(2, 3) {
                let mut l = default_loc.clone();
                l[0] = a.def + delta;
                push_master(&mut masters, l);
            }
        }
        let mut l = default_loc.clone();
        l[0] = a.max - 1.0;
        if rng.chance(1, 2) {
            push_master(&mut masters, l);
        }
    }

    // ---- glyphs
    let n_glyphs = match profile {
        "big" => 150 + rng.below(250),
        "names" => 30 + rng.below(50),
        _ => 10 + rng.below(60),
    };
    let mut names: Vec<String> = Vec::new();
    if profile == "names" || profile == "mixed" {
        let mut pool: Vec<&str> = STRESS_NAMES.to_vec();
        while !pool.is_empty() && names.len() < n_glyphs * 3 / 4 {
            let i = rng.below(pool.len());
            names.push(pool.swap_remove(i).to_string());
        }
        if rng.chance(1, 2) {
            names.push("L".repeat(120 + rng.below(150)));
            names.push("l".repeat(120 + rng.below(150)));
        }
        if rng.chance(2, 3) {
            // a family of long names that agree in a long prefix (ligature or emoji-sequence names
            // with suffix variants); short enough that their IR file names fit NAME_MAX
            let len = 90 + rng.below(100);
            let stem: String = (0..len)
                .map(|i| if i % 9 == 8 { '_' } else { (b'a' + rng.below(26) as u8) as char })
                .collect();
            names.push(stem.clone());
            for suffix in [".liga", ".liga.ss01", ".rlig", "_x", "_y"] {
                if rng.chance(1, 2) {
                    names.push(format!("{stem}{suffix}"));
                }
            }
        }
    }
    if rng.chance(3, 4) {
        names.push("space".into());
    }
    if rng.chance(1, 3) {
        names.push(".notdef".into());
    }
    let mut k = 0;
    while names.len() < n_glyphs {
        let n = format!("g{k}");
        k += 1;
        if !names.contains(&n) {
            names.push(n);
        }
    }
    // order is part of the source
    for i in (1..names.len()).rev() {
        let j = rng.below(i + 1);
        names.swap(i, j);
    }
    let mut glyphs: Vec<GlyphSpec> = Vec::new();
    // code points from several scripts, so that kerning is split per script and merged again
    // where groups span scripts (look-alike groups), with left-to-right and right-to-left runs
    let mut next_cp = 0x41u32;
    let mut next_in_block = [0x391u32, 0x410, 0x5D0, 0x627, 0x905];
    let multi_script = profile == "kern" || profile == "mixed" || rng.chance(1, 3);
    for (i, name) in names.iter().enumerate() {
        let composite_ok = i >= 2;
        let kind = if name == "space" {
            0
        } else if composite_ok && (profile == "composites" || profile == "big" || profile == "mixed") {
            rng.below(5)
        } else if composite_ok {
            rng.below(8).min(4)
        } else {
            1
        };
        let mut g = GlyphSpec {
            name: name.clone(),
            file: format!("g{i:04}.glif"),
            codepoint: None,
            export: true,
            points: 0,
            components: vec![],
            anchor_top: false,
            is_mark: false,
            width: 200 + rng.below(800) as i32,
            seed: rng.next(),
            extra_cp: None,
            anchors: vec![],
        };
        match kind {
            0 => {}
            1 | 4 => g.points = 3 + rng.below(4),
            2 | 3 => {
                // composite, possibly nested / transformed / mixed
                let n = 1 + rng.below(3);
                for _ in 0..n {
                    let base = rng.below(i);
                    let scale: f64 = match rng.below(6) {
                        0 => 0.5,
                        1 => 1.5,
                        2 => -1.0,
                        _ => 1.0,
                    };
                    g.components.push((base, rng.below(300) as i32 - 100, rng.below(300) as i32 - 100, scale.abs(), scale < 0.0));
                }
                if kind == 3 {
                    g.points = 3 + rng.below(3);
                }
            }
            _ => {}
        }
        if rng.chance(2, 3) && name != ".notdef" {
            if multi_script && rng.chance(2, 5) {
                // mostly left-to-right scripts: a kerning group that mixes directions is refused by fontc
                let blocks = if rng.chance(9, 10) { 2 } else { next_in_block.len() };
                let b = rng.below(blocks);
                g.codepoint = Some(next_in_block[b]);
                next_in_block[b] += 1;
            } else {
                g.codepoint = Some(next_cp);
                next_cp += 1 + rng.below(3) as u32;
            }
        }
        if rng.chance(1, 8) && i > 0 && name != "space" && name != ".notdef" {
            g.export = false;
            g.codepoint = None;
        }
        if rng.chance(1, 4) {
            g.anchor_top = true;
            g.is_mark = rng.chance(1, 3) && g.components.is_empty();
            if g.is_mark {
                g.width = 0;
            }
        }
        glyphs.push(g);
    }

    // ---- profile "features": several mark classes, ligature anchors and carets, mark-to-mark,
    // two code points per glyph, so that every per-class / per-glyph collection has company
    let feat = profile == "features";
    if feat {
        let classes = ["top", "bottom", "ogonek", "ring"];
        let mut extra = 0xE000u32;
        for g in glyphs.iter_mut() {
            if g.name == ".notdef" || g.name == "space" {
                continue;
            }
            g.anchor_top = false;
            g.is_mark = g.components.is_empty() && rng.chance(1, 5);
            if g.is_mark {
                g.width = 0;
                let c = *rng.pick(&classes);
                g.anchors.push((format!("_{c}"), 100 + rng.below(50) as i32, 400 + rng.below(100) as i32));
                if rng.chance(1, 2) {
                    // stacks on marks of its own class
                    g.anchors.push((c.to_string(), 100 + rng.below(50) as i32, 600 + rng.below(100) as i32));
                }
            } else if rng.chance(1, 6) {
                // a ligature: numbered anchors and carets
                let n = 2 + rng.below(2);
                let c = *rng.pick(&classes);
                for k in 1..=n {
                    g.anchors.push((format!("{c}_{k}"), (k as i32) * 200, 700));
                    if rng.chance(1, 2) {
                        g.anchors.push((format!("bottom_{k}"), (k as i32) * 200, -50));
                    }
                }
                for k in 1..n {
                    g.anchors.push((format!("caret_{k}"), (k as i32) * 200 + 100, 0));
                }
            } else {
                for c in classes {
                    if rng.chance(1, 2) {
                        g.anchors.push((c.to_string(), 200 + rng.below(200) as i32, if c == "top" || c == "ring" { 700 } else { -20 }));
                    }
                }
            }
            if g.codepoint.is_some() && rng.chance(1, 4) {
                g.extra_cp = Some(extra);
                extra += 1;
            }
        }
    }

    // ---- kerning plan (names of groups and pairs shared; values and memberships vary per master)
    let n_pairs = match profile {
        "kern" => 300 + rng.below(700),
        "big" => rng.below(600),
        _ => rng.below(40),
    };
    let kernable: Vec<usize> = (0..glyphs.len()).filter(|i| glyphs[*i].export && !glyphs[*i].is_mark).collect();
    let n_groups = if kernable.len() > 4 { rng.below(6) } else { 0 };
    let divergent_groups = rng.chance(1, 3);
    let mut pairs: Vec<(String, String, i32)> = Vec::new();
    if kernable.len() >= 2 {
        for _ in 0..n_pairs {
            let side = |rng: &mut Prng, which: u8| {
                if n_groups > 0 && rng.chance(1, 4) {
                    format!("public.kern{which}.grp{}", rng.below(n_groups))
                } else {
                    glyphs[*rng.pick(&kernable)].name.clone()
                }
            };
            let (a, b) = (side(&mut rng, 1), side(&mut rng, 2));
            if pairs.iter().any(|(x, y, _)| *x == a && *y == b) {
                continue;
            }
            let v = rng.below(200) as i32 - 100;
            pairs.push((a, b, v));
        }
    }

    // ---- profile "features": feature code, categories, production names, colour
    let mut feat_lib = String::new();
    let mut feat_fea = String::new();
    if feat {
        let usable: Vec<&GlyphSpec> = glyphs.iter().filter(|g| g.export && g.name != ".notdef" && g.name != "space" && !g.is_mark).collect();
        // production names, some of them colliding
        feat_lib.push_str("<key>public.postscriptNames</key><dict>");
        for g in glyphs.iter().filter(|g| g.export && g.name != ".notdef") {
            if rng.chance(1, 3) {
                let pn = if rng.chance(1, 4) { "dup".to_string() } else { format!("uni{:04X}", 0xF000 + rng.below(64)) };
                let _ = write!(feat_lib, "<key>{}</key><string>{pn}</string>", xml(&g.name));
            }
        }
        feat_lib.push_str("</dict><key>public.openTypeCategories</key><dict>");
        for g in glyphs.iter().filter(|g| g.name != ".notdef") {
            let cat = if g.is_mark {
                "mark"
            } else if g.anchors.iter().any(|a| a.0.ends_with("_1")) {
                "ligature"
            } else if rng.chance(1, 2) {
                "base"
            } else {
                continue;
            };
            let _ = write!(feat_lib, "<key>{}</key><string>{cat}</string>", xml(&g.name));
        }
        feat_lib.push_str("</dict>");
        if usable.len() >= 4 && rng.chance(1, 2) {
            // two palettes, a few colour glyphs made of layers
            feat_lib.push_str("<key>com.github.googlei18n.ufo2ft.colorPalettes</key><array>");
            for p in 0..2 {
                feat_lib.push_str("<array>");
                for c in 0..3 {
                    let _ = write!(feat_lib, "<array><real>{}</real><real>{}</real><real>{}</real><real>1</real></array>", (p as f64) * 0.5, (c as f64) * 0.3, 0.25);
                }
                feat_lib.push_str("</array>");
            }
            feat_lib.push_str("</array><key>com.github.googlei18n.ufo2ft.colorLayers</key><dict>");
            let n_col = 1 + rng.below(3);
            let mut done: Vec<&str> = Vec::new();
            for _ in 0..n_col {
                let base = *rng.pick(&usable);
                if done.contains(&base.name.as_str()) {
                    continue;
                }
                done.push(base.name.as_str());
                let _ = write!(feat_lib, "<key>{}</key><array>", xml(&base.name));
                for l in 0..(1 + rng.below(3)) {
                    let layer = *rng.pick(&usable);
                    let _ = write!(feat_lib, "<array><string>{}</string><integer>{}</integer></array>", xml(&layer.name), l % 3);
                }
                feat_lib.push_str("</array>");
            }
            feat_lib.push_str("</dict>");
        }
        // feature code over the usable glyphs
        if usable.len() >= 6 {
            let pick = |rng: &mut Prng| usable[rng.below(usable.len())].name.clone();
            feat_fea.push_str("languagesystem DFLT dflt;\nlanguagesystem latn dflt;\nlanguagesystem latn TRK;\nlanguagesystem grek dflt;\nlanguagesystem cyrl dflt;\n");
            for c in 0..(2 + rng.below(3)) {
                let mut members: Vec<String> = (0..(2 + rng.below(4))).map(|_| pick(&mut rng)).collect();
                members.sort();
                members.dedup();
                let _ = writeln!(feat_fea, "@cls{c} = [{}];", members.join(" "));
            }
            let tags = ["liga", "ss01", "ss02", "salt", "calt", "locl", "ccmp", "smcp"];
            let n_feat = 2 + rng.below(4);
            for f in 0..n_feat {
                let tag = tags[(f + rng.below(3)) % tags.len()];
                let _ = writeln!(feat_fea, "feature {tag} {{");
                if tag == "locl" {
                    feat_fea.push_str("  script latn; language TRK;\n");
                }
                for _ in 0..(1 + rng.below(4)) {
                    let (a, b, c) = (pick(&mut rng), pick(&mut rng), pick(&mut rng));
                    match rng.below(4) {
                        0 if a != b => {
                            let _ = writeln!(feat_fea, "  sub {a} by {b};");
                        }
                        1 => {
                            let _ = writeln!(feat_fea, "  sub {a} {b} by {c};");
                        }
                        2 if a != b => {
                            let _ = writeln!(feat_fea, "  sub {a}' {c} by {b};");
                        }
                        _ => {
                            let _ = writeln!(feat_fea, "  sub {a} from [{b} {c}];");
                        }
                    }
                }
                let _ = writeln!(feat_fea, "}} {tag};");
            }
        }
    }

    // ---- write the masters
    for (mi, m) in masters.iter().enumerate() {
        let ufo = dir.join(&m.file);
        fs::create_dir_all(ufo.join("glyphs")).expect("ufo dir");
        fs::write(
            ufo.join("metainfo.plist"),
            plist("<dict><key>creator</key><string>fontc-sim</string><key>formatVersion</key><integer>3</integer></dict>"),
        )
        .unwrap();
        let w: f64 = m.t.first().copied().unwrap_or(0.0);
        fs::write(
            ufo.join("fontinfo.plist"),
            plist(&format!(
                "<dict><key>familyName</key><string>Gen {seed:x}</string><key>styleName</key><string>M{mi}</string>\
                 <key>unitsPerEm</key><integer>1000</integer><key>ascender</key><integer>{}</integer>\
                 <key>descender</key><integer>{}</integer><key>xHeight</key><integer>{}</integer>\
                 <key>capHeight</key><integer>700</integer><key>versionMajor</key><integer>1</integer><key>versionMinor</key><integer>0</integer></dict>",
                800 + (w * 40.0) as i32,
                -200 - (w * 20.0) as i32,
                500 + (w * 30.0) as i32
            )),
        )
        .unwrap();
        fs::write(
            ufo.join("layercontents.plist"),
            plist("<array><array><string>public.default</string><string>glyphs</string></array></array>"),
        )
        .unwrap();
        let mut lib = String::from("<dict><key>public.glyphOrder</key><array>");
        for g in &glyphs {
            let _ = write!(lib, "<string>{}</string>", xml(&g.name));
        }
        lib.push_str("</array><key>public.skipExportGlyphs</key><array>");
        for g in glyphs.iter().filter(|g| !g.export) {
            let _ = write!(lib, "<string>{}</string>", xml(&g.name));
        }
        lib.push_str("</array>");
        if feat {
            lib.push_str(&feat_lib);
        }
        lib.push_str("</dict>");
        fs::write(ufo.join("lib.plist"), plist(&lib)).unwrap();
        if feat && !feat_fea.is_empty() {
            fs::write(ufo.join("features.fea"), &feat_fea).unwrap();
        }

        let mut contents = String::from("<dict>");
        for g in &glyphs {
            let _ = write!(contents, "<key>{}</key><string>{}</string>", xml(&g.name), g.file);
        }
        contents.push_str("</dict>");
        fs::write(ufo.join("glyphs").join("contents.plist"), plist(&contents)).unwrap();

        for g in &glyphs {
            let mut r = Prng::new(g.seed);
            let mut s = format!(
                "<?xml version=\"1.0\" encoding=\"UTF-8\"?>\n<glyph name=\"{}\" format=\"2\">\n  <advance width=\"{}\"/>\n",
                xml(&g.name),
                if g.is_mark { 0 } else { g.width + (w * 60.0) as i32 }
            );
            if let Some(cp) = g.codepoint {
                let _ = writeln!(s, "  <unicode hex=\"{cp:04X}\"/>");
            }
            if let Some(cp) = g.extra_cp {
                let _ = writeln!(s, "  <unicode hex=\"{cp:04X}\"/>");
            }
            for (name, x, y) in &g.anchors {
                let _ = writeln!(s, "  <anchor x=\"{}\" y=\"{}\" name=\"{name}\"/>", x + (w * 12.0) as i32, y + (w * 8.0) as i32);
            }
            if g.anchor_top {
                let _ = writeln!(
                    s,
                    "  <anchor x=\"{}\" y=\"{}\" name=\"{}\"/>",
                    g.width / 2 + (w * 10.0) as i32,
                    if g.is_mark { 500 } else { 700 + (w * 20.0) as i32 },
                    if g.is_mark { "_top" } else { "top" }
                );
            }
            s.push_str("  <outline>\n");
            if g.points > 0 {
                s.push_str("    <contour>\n");
                for p in 0..g.points {
                    // a star-ish polygon whose radius depends on the master
                    let ang = (p as f64) / (g.points as f64) * std::f64::consts::TAU;
                    let base_r = 100.0 + (r.below(200) as f64);
                    let grow: f64 = m.t.iter().enumerate().map(|(i, t)| t * (20.0 + 15.0 * i as f64)).sum();
                    let rad = base_r + grow;
                    let x = (250.0 + rad * ang.cos()).round();
                    let y = (300.0 + rad * ang.sin()).round();
                    let _ = writeln!(s, "      <point x=\"{x}\" y=\"{y}\" type=\"line\"/>");
                }
                s.push_str("    </contour>\n");
            }
            for (base, dx, dy, scale, flip) in &g.components {
                let xs = if *flip { -scale } else { *scale };
                let _ = write!(
                    s,
                    "    <component base=\"{}\" xOffset=\"{}\" yOffset=\"{}\"",
                    xml(&glyphs[*base].name),
                    dx + (w * 10.0) as i32,
                    dy
                );
                if xs != 1.0 || *scale != 1.0 {
                    let _ = write!(s, " xScale=\"{xs}\" yScale=\"{scale}\"");
                }
                s.push_str("/>\n");
            }
            s.push_str("  </outline>\n</glyph>\n");
            fs::write(ufo.join("glyphs").join(&g.file), s).unwrap();
        }

        // groups and kerning; some masters have none, or regroup
        let has_kerning = !pairs.is_empty() && (mi == 0 || rng.chance(4, 5));
        if n_groups > 0 {
            let mut grp = String::from("<dict>");
            let mut gr = Prng::new(seed ^ if divergent_groups { mi as u64 * 7919 } else { 0 });
            for which in [1u8, 2] {
                // every glyph in at most one group per side
                let assigned: Vec<usize> = kernable.iter().map(|_| gr.below(n_groups * 2)).collect();
                for gi in 0..n_groups {
                    let _ = write!(grp, "<key>public.kern{which}.grp{gi}</key><array>");
                    for (ki, k) in kernable.iter().enumerate() {
                        if assigned[ki] == gi {
                            let _ = write!(grp, "<string>{}</string>", xml(&glyphs[*k].name));
                        }
                    }
                    grp.push_str("</array>");
                }
            }
            grp.push_str("</dict>");
            fs::write(ufo.join("groups.plist"), plist(&grp)).unwrap();
        }
        if has_kerning {
            let mut firsts: Vec<&String> = pairs.iter().map(|p| &p.0).collect();
            firsts.sort();
            firsts.dedup();
            let mut kern = String::from("<dict>");
            for f in firsts {
                let _ = write!(kern, "<key>{}</key><dict>", xml(f));
                for (a, b, v) in pairs.iter().filter(|p| &p.0 == f) {
                    let _ = a;
                    // values vary per master; some pairs exist only in some masters
                    if mi > 0 && rng.chance(1, 10) {
                        continue;
                    }
                    let val = v + (w * 30.0) as i32 + if mi > 0 { rng.below(5) as i32 } else { 0 };
                    let _ = write!(kern, "<key>{}</key><integer>{}</integer>", xml(b), val);
                }
                kern.push_str("</dict>");
            }
            kern.push_str("</dict>");
            fs::write(ufo.join("kerning.plist"), plist(&kern)).unwrap();
        }
    }

    // ---- designspace
    let mut ds = String::from("<?xml version='1.0' encoding='UTF-8'?>\n<designspace format=\"4.1\">\n  <axes>\n");
    for a in axes {
        let _ = writeln!(
            ds,
            "    <axis tag=\"{}\" name=\"{}\" minimum=\"{}\" maximum=\"{}\" default=\"{}\"/>",
            a.tag, a.name, a.min, a.max, a.def
        );
    }
    ds.push_str("  </axes>\n");
    // a substitution rule between two exported glyphs, sometimes
    let exported: Vec<&GlyphSpec> = glyphs.iter().filter(|g| g.export && g.name != ".notdef").collect();
    if feat && exported.len() >= 4 {
        // several rules over regions that are not nested, some with two condition sets
        ds.push_str("  <rules>\n");
        for r in 0..(2 + rng.below(3)) {
            let _ = writeln!(ds, "    <rule name=\"r{r}\">");
            for _ in 0..(1 + rng.below(2)) {
                ds.push_str("      <conditionset>\n");
                for a in axes.iter() {
                    if rng.chance(2, 3) {
                        let span = a.max - a.min;
                        let lo = a.min + span * (rng.below(6) as f64) / 10.0;
                        let hi = lo + span * (1 + rng.below(4)) as f64 / 10.0;
                        let _ = writeln!(ds, "        <condition name=\"{}\" minimum=\"{}\" maximum=\"{}\"/>", a.name, lo, hi.min(a.max));
                    }
                }
                ds.push_str("      </conditionset>\n");
            }
            for _ in 0..(1 + rng.below(2)) {
                let (x, y) = (exported[rng.below(exported.len())], exported[rng.below(exported.len())]);
                if x.name != y.name {
                    let _ = writeln!(ds, "      <sub name=\"{}\" with=\"{}\"/>", xml(&x.name), xml(&y.name));
                }
            }
            ds.push_str("    </rule>\n");
        }
        ds.push_str("  </rules>\n");
    } else if exported.len() >= 2 && rng.chance(1, 3) {
        let a0 = &axes[0];
        let (x, y) = (exported[rng.below(exported.len())], exported[rng.below(exported.len())]);
        if x.name != y.name {
            let _ = write!(
                ds,
                "  <rules>\n    <rule name=\"r1\">\n      <conditionset>\n        <condition name=\"{}\" minimum=\"{}\" maximum=\"{}\"/>\n      </conditionset>\n      <sub name=\"{}\" with=\"{}\"/>\n    </rule>\n  </rules>\n",
                a0.name,
                (a0.def + a0.max) / 2.0,
                a0.max,
                xml(&x.name),
                xml(&y.name)
            );
        }
    }
    ds.push_str("  <sources>\n");
    for (mi, m) in masters.iter().enumerate() {
        let _ = writeln!(
            ds,
            "    <source filename=\"{}\" name=\"m{mi}\" familyname=\"Gen\" stylename=\"M{mi}\">\n      <location>",
            m.file
        );
        for (a, v) in axes.iter().zip(m.loc.iter()) {
            let _ = writeln!(ds, "        <dimension name=\"{}\" xvalue=\"{}\"/>", a.name, v);
        }
        ds.push_str("      </location>\n    </source>\n");
    }
    ds.push_str("  </sources>\n</designspace>\n");
    fs::write(dir.join("Gen.designspace"), ds).unwrap();
    "Gen.designspace".to_string()
}

fn plist(body: &str) -> String {
    format!(
        "<?xml version=\"1.0\" encoding=\"UTF-8\"?>\n<!DOCTYPE plist PUBLIC \"-//Apple//DTD PLIST 1.0//EN\" \"http://www.apple.com/DTDs/PropertyList-1.0.dtd\">\n<plist version=\"1.0\">\n{body}\n</plist>\n"
    )
}
