//! Simulator state shared by the scheduler and the hooks installed in fontc.
//!
//! Everything a run does under simulation happens on ONE OS thread (shuttle runs its
//! tasks as coroutines), so the state lives behind a plain mutex that is never held
//! across a yield.

use std::{
    collections::{BTreeMap, BTreeSet, HashMap, HashSet},
    fmt::Debug,
    io::{Read, Write},
    path::{Path, PathBuf},
    sync::{Mutex, MutexGuard},
};

use serde::{Deserialize, Serialize};
use shuttle::scheduler::{Schedule, Scheduler, Task, TaskId};

use crate::{
    plan::{Plan, Prng},
    sha256::fnv,
};

pub const MAIN: &str = "main";

#[derive(Clone, Debug, Serialize, Deserialize, PartialEq)]
pub struct Race {
    pub item: String,
    pub first_job: String,
    pub first_op: String,
    pub second_job: String,
    pub second_op: String,
}

#[derive(Clone, Debug, Default)]
struct JobRec {
    start: u64,
    end: Option<u64>,
}

#[derive(Clone, Debug, Serialize, Deserialize)]
pub struct StorageOp {
    pub seq: u64,
    pub job: String,
    /// open-write | open-read
    pub op: String,
    pub id: String,
    pub path: String,
}

#[derive(Default)]
pub struct Sim {
    pub active: bool,
    pub plan: Option<Plan>,
    rng: Prng0,
    pub step: usize,
    pub decisions: Vec<u32>,
    pub deviations: Vec<(usize, usize)>,
    overrides: HashMap<usize, usize>,
    pub task_job: HashMap<usize, String>,
    parked: HashSet<usize>,
    /// task -> (job, n): parked until that job has made its n-th effective write
    held_until_write: HashMap<usize, (String, u32)>,
    pub writes_by_job: BTreeMap<String, u32>,
    /// what the scheduler was told about each job (for the structural ordering check)
    pub job_info: BTreeMap<String, crate::order::JobInfo>,
    handling: Option<String>,
    /// jobs that replaced a value another job had written, with how many writes they made in all
    pub rewriters: BTreeSet<String>,
    rushed: Option<usize>,
    prio: HashMap<usize, i64>,
    low_prio: i64,
    change_points: HashSet<usize>,
    pub max_tasks_runnable: usize,
    pub diverged: Option<String>,

    // event log
    pub seq: u64,
    pub log_hash: u64,
    pub log: Option<Vec<String>>,

    // jobs
    jobs: HashMap<String, JobRec>,
    pub job_order: Vec<String>,
    pub job_end_order: Vec<String>,
    started_count: usize,
    ended_unhandled: HashSet<String>,
    coord_state: u64,
    pub coord_states: HashSet<u64>,

    // values
    versions: HashMap<String, String>,
    by_ty: HashMap<&'static str, BTreeMap<String, String>>,
    writes_by: HashMap<(String, String), u32>,
    /// item -> accesses (job, is_write)
    pub accesses: HashMap<String, Vec<(String, bool)>>,
    /// ty -> jobs that wrote some item of ty / scanned ty
    pub ty_writers: HashMap<&'static str, Vec<String>>,
    pub ty_scanners: HashMap<&'static str, Vec<String>>,
    pub reads: BTreeMap<String, BTreeMap<String, BTreeSet<String>>>,
    pub scans: BTreeMap<String, BTreeMap<String, BTreeSet<u64>>>,
    pub scan_tab: BTreeMap<u64, Vec<(String, String)>>,
    pub races: Vec<Race>,
    race_keys: HashSet<(String, String, String)>,
    pub n_access: u64,
    pub access_by_op: BTreeMap<String, u64>,
    /// get-misses per item
    pub getters: BTreeMap<String, u64>,
    /// (task, item) of a `get` whose internal try_get has not happened yet
    pending_get: HashSet<(usize, String)>,
    pub get_reads: BTreeSet<String>,
    pub bare_reads: BTreeSet<String>,
    pub scanned_tys: BTreeSet<String>,
    pub written_items: BTreeSet<String>,

    pub probes: BTreeMap<String, u64>,
    pub faults_fired: BTreeMap<String, u64>,
    pub fault_log: Vec<String>,

    // storage
    pub storage: Vec<StorageOp>,
    pub readbacks: Vec<(String, Option<bool>, String)>,
    pub open_writers: Vec<(u64, PathBuf, usize)>,
    next_writer: u64,
    evict: HashSet<String>,
}

#[derive(Clone, Debug)]
struct Prng0(Prng);
impl Default for Prng0 {
    fn default() -> Self {
        Prng0(Prng::new(0))
    }
}

static SIM: Mutex<Option<Sim>> = Mutex::new(None);

pub fn lock() -> MutexGuard<'static, Option<Sim>> {
    SIM.lock().unwrap_or_else(|e| e.into_inner())
}

fn with<R>(f: impl FnOnce(&mut Sim) -> R) -> Option<R> {
    let mut g = lock();
    match g.as_mut() {
        Some(sim) if sim.active => Some(f(sim)),
        _ => None,
    }
}

/// True while the calling OS thread is inside a shuttle execution
pub static IN_EXEC: std::sync::atomic::AtomicBool = std::sync::atomic::AtomicBool::new(false);

fn me() -> usize {
    if IN_EXEC.load(std::sync::atomic::Ordering::SeqCst) {
        usize::from(shuttle::current::me())
    } else {
        0
    }
}

/// Yield site classes: one bit each in `Plan::yield_mask`
pub fn site_bit(op: &str, ty: &str) -> u64 {
    let mut s = String::with_capacity(op.len() + ty.len() + 1);
    s.push_str(op);
    s.push('/');
    s.push_str(ty);
    1u64 << (fnv(s.as_bytes()) % 64)
}

pub fn begin(plan: &Plan, verbose: bool) {
    let mut sim = Sim {
        active: true,
        plan: Some(plan.clone()),
        rng: Prng0(Prng::new(plan.strategy.seed)),
        overrides: plan.overrides.iter().cloned().collect(),
        log: verbose.then(Vec::new),
        log_hash: 0xcbf29ce484222325,
        evict: plan.evict.iter().cloned().collect(),
        ..Default::default()
    };
    if plan.strategy.name == "pct" {
        let horizon = plan.strategy.horizon.max(1);
        for _ in 0..plan.strategy.depth {
            let p = sim.rng.0.below(horizon);
            sim.change_points.insert(p);
        }
    }
    *lock() = Some(sim);
}

pub fn end() -> Sim {
    let mut sim = lock().take().expect("simulation state");
    sim.active = false;
    sim
}

impl Sim {
    fn plan(&self) -> &Plan {
        self.plan.as_ref().unwrap()
    }

    fn emit(&mut self, text: impl FnOnce() -> String) {
        self.seq += 1;
        let t = text();
        let mut h = self.log_hash;
        for b in t.as_bytes() {
            h ^= *b as u64;
            h = h.wrapping_mul(0x100000001b3);
        }
        h ^= 0xff;
        h = h.wrapping_mul(0x100000001b3);
        self.log_hash = h;
        if let Some(log) = self.log.as_mut() {
            log.push(format!("{:>7} {}", self.seq, t));
        }
    }

    fn probe(&mut self, name: &str) {
        *self.probes.entry(name.to_string()).or_default() += 1;
    }

    fn job_of(&self, task: usize) -> String {
        self.task_job.get(&task).cloned().unwrap_or_else(|| MAIN.to_string())
    }

    fn overlaps(&self, a: &str, b: &str) -> bool {
        // both are jobs that have started; they overlap unless one ended before the other began
        let (Some(ja), Some(jb)) = (self.jobs.get(a), self.jobs.get(b)) else {
            return false;
        };
        let a_before_b = ja.end.map(|e| e <= jb.start).unwrap_or(false);
        let b_before_a = jb.end.map(|e| e <= ja.start).unwrap_or(false);
        !(a_before_b || b_before_a)
    }

    fn race(&mut self, item: &str, first: (&str, bool), second: (&str, bool)) {
        let key = (item.to_string(), first.0.to_string(), second.0.to_string());
        if !self.race_keys.insert(key) {
            return;
        }
        let op = |w: bool| if w { "write" } else { "read" }.to_string();
        let r = Race {
            item: item.to_string(),
            first_job: first.0.to_string(),
            first_op: op(first.1),
            second_job: second.0.to_string(),
            second_op: op(second.1),
        };
        self.emit(|| format!("RACE {r:?}"));
        self.races.push(r);
    }

    fn check_conflicts(&mut self, job: &str, item: &str, write: bool) {
        if job == MAIN {
            return;
        }
        let prior: Vec<(String, bool)> = self.accesses.get(item).cloned().unwrap_or_default();
        for (other, other_write) in prior {
            if other == job || other == MAIN || !(write || other_write) {
                continue;
            }
            if self.overlaps(&other, job) {
                self.race(item, (&other, other_write), (job, write));
            }
        }
    }

    fn record_access(&mut self, task: usize, op: &'static str, ty: &'static str, id: Option<&dyn Debug>) {
        self.n_access += 1;
        *self.access_by_op.entry(op.to_string()).or_default() += 1;
        let job = self.job_of(task);
        match (op, id) {
            ("scan", _) => {
                // a scan reads the membership of the whole map
                let members: Vec<(String, String)> = self
                    .by_ty
                    .get(ty)
                    .map(|m| m.iter().map(|(k, v)| (k.clone(), v.clone())).collect())
                    .unwrap_or_default();
                let mut h = 0xcbf29ce484222325u64;
                for (k, v) in &members {
                    h = (h ^ fnv(k.as_bytes())).wrapping_mul(0x100000001b3);
                    h = (h ^ fnv(v.as_bytes())).wrapping_mul(0x100000001b3);
                }
                let n = members.len();
                self.scanned_tys.insert(ty.to_string());
                self.scan_tab.entry(h).or_insert(members);
                self.emit(|| format!("{job} scan {ty} n={n} h={h:x}"));
                if job != MAIN {
                    let writers = self.ty_writers.get(ty).cloned().unwrap_or_default();
                    for w in writers {
                        if w != job && w != MAIN && self.overlaps(&w, &job) {
                            self.race(&format!("{ty}:*"), (&w, true), (&job, false));
                        }
                    }
                    let sc = self.ty_scanners.entry(ty).or_default();
                    if !sc.contains(&job) {
                        sc.push(job.clone());
                    }
                }
                self.scans.entry(job).or_default().entry(ty.to_string()).or_default().insert(h);
            }
            ("read", Some(id)) => {
                let item = format!("{ty}:{id:?}");
                if self.pending_get.remove(&(task, item.clone())) {
                    self.get_reads.insert(item.clone());
                } else {
                    self.bare_reads.insert(item.clone());
                }
                let version = self.versions.get(&item).cloned().unwrap_or_else(|| "absent".to_string());
                self.emit(|| format!("{job} read {item} = {version}"));
                self.check_conflicts(&job, &item, false);
                let acc = self.accesses.entry(item.clone()).or_default();
                if !acc.iter().any(|(j, w)| j == &job && !*w) {
                    acc.push((job.clone(), false));
                }
                self.reads.entry(job).or_default().entry(item).or_default().insert(version);
            }
            ("write", Some(id)) => {
                let item = format!("{ty}:{id:?}");
                self.emit(|| format!("{job} write? {item}"));
                self.check_conflicts(&job, &item, true);
                if job != MAIN {
                    let scanners = self.ty_scanners.get(ty).cloned().unwrap_or_default();
                    for s in scanners {
                        if s != job && self.overlaps(&s, &job) {
                            self.race(&format!("{ty}:*"), (&s, false), (&job, true));
                        }
                    }
                    let tw = self.ty_writers.entry(ty).or_default();
                    if !tw.contains(&job) {
                        tw.push(job.clone());
                    }
                }
                let acc = self.accesses.entry(item).or_default();
                if !acc.iter().any(|(j, w)| j == &job && *w) {
                    acc.push((job, true));
                }
            }
            _ => {}
        }
    }

    /// The scheduler's decision
    fn choose(&mut self, runnable: &[usize], current: Option<usize>) -> usize {
        self.max_tasks_runnable = self.max_tasks_runnable.max(runnable.len());
        let step = self.step;
        self.step += 1;

        let seq_choice = match current {
            Some(c) if runnable.contains(&c) => c,
            _ => *runnable.iter().min().unwrap(),
        };

        let choice = if let Some(t) = self.overrides.get(&step).copied().filter(|t| runnable.contains(t)) {
            t
        } else {
            self.strategy_choice(runnable, current, seq_choice, step)
        };
        if choice != seq_choice {
            self.deviations.push((step, choice));
        }
        self.decisions.push(choice as u32);
        choice
    }

    fn strategy_choice(&mut self, runnable: &[usize], current: Option<usize>, seq_choice: usize, step: usize) -> usize {
        let name = self.plan().strategy.name.clone();
        let base = self.plan().strategy.base.clone();
        // candidates: everything not parked, unless that leaves nothing
        let mut cands: Vec<usize> = runnable.iter().copied().filter(|t| !self.parked.contains(t)).collect();
        if cands.is_empty() {
            cands = runnable.to_vec();
        }
        if let Some(r) = self.rushed {
            if cands.contains(&r) {
                return r;
            }
        }
        let seq_of = |cands: &[usize]| match current {
            Some(c) if cands.contains(&c) => c,
            _ => *cands.iter().min().unwrap(),
        };
        let mode = match name.as_str() {
            "seq" | "rand" | "pct" => name.as_str(),
            "starve-coord" => {
                let others: Vec<usize> = cands.iter().copied().filter(|t| *t != 0).collect();
                if !others.is_empty() {
                    cands = others;
                }
                base.as_deref().unwrap_or("rand")
            }
            "eager-coord" => {
                if cands.contains(&0) {
                    return 0;
                }
                base.as_deref().unwrap_or("rand")
            }
            _ => base.as_deref().unwrap_or("rand"),
        };
        match mode {
            "seq" => {
                if cands.len() == runnable.len() {
                    seq_choice
                } else {
                    seq_of(&cands)
                }
            }
            "pct" => {
                for t in runnable {
                    if !self.prio.contains_key(t) {
                        let p = (self.rng.0.next() >> 2) as i64;
                        self.prio.insert(*t, p);
                    }
                }
                if self.change_points.contains(&step) {
                    if let Some(c) = current {
                        self.low_prio -= 1;
                        let lp = self.low_prio;
                        self.prio.insert(c, lp);
                    }
                }
                *cands.iter().max_by_key(|t| self.prio[*t]).unwrap()
            }
            _ => {
                let i = self.rng.0.below(cands.len());
                cands[i]
            }
        }
    }
}

// ---------------------------------------------------------------- scheduler

pub struct SimScheduler {
    pub started: bool,
    pub seed: u64,
    data: Prng,
}

impl SimScheduler {
    pub fn new(seed: u64) -> Self {
        SimScheduler { started: false, seed, data: Prng::new(seed ^ 0xdada) }
    }
}

impl Scheduler for SimScheduler {
    fn new_execution(&mut self) -> Option<Schedule> {
        if self.started {
            None
        } else {
            self.started = true;
            Some(Schedule::new(self.seed))
        }
    }

    fn next_task(&mut self, runnable: &[&Task], current: Option<TaskId>, _is_yielding: bool) -> Option<TaskId> {
        let ids: Vec<usize> = runnable.iter().map(|t| usize::from(t.id())).collect();
        let cur = current.map(usize::from);
        let mut g = lock();
        let sim = g.as_mut().expect("scheduler without simulation state");
        if let Some(at) = sim.plan().crash_at {
            if sim.step >= at {
                drop(g);
                crate::storage::crash_now();
            }
        }
        let c = sim.choose(&ids, cur);
        Some(TaskId::from(c))
    }

    fn next_u64(&mut self) -> u64 {
        self.data.next()
    }
}

// ---------------------------------------------------------------- hooks

fn h_access(op: &'static str, ty: &'static str, id: Option<&dyn Debug>) {
    let Some(do_yield) = with(|sim| sim.plan().yield_mask & site_bit(op, ty) != 0) else {
        return;
    };
    if do_yield && IN_EXEC.load(std::sync::atomic::Ordering::SeqCst) {
        shuttle::thread::yield_now();
    }
    let task = me();
    with(|sim| sim.record_access(task, op, ty, id));
}

fn h_note(what: &'static str, ty: &'static str, id: &dyn Debug) {
    let task = me();
    with(|sim| {
        let job = sim.job_of(task);
        let item = format!("{ty}:{id:?}");
        sim.emit(|| format!("{job} {what} {item}"));
        match what {
            "get" => {
                sim.pending_get.insert((task, item.clone()));
            }
            "miss" => {
                // the get's internal try_get came back empty; a second try_get follows
                sim.pending_get.insert((task, item.clone()));
                sim.probe("get-miss");
                *sim.getters.entry(item).or_default() += 1;
            }
            "restored" => {
                sim.probe("restored-from-disk");
                let n = sim.writes_by.entry(("disk".to_string(), item.clone())).or_default();
                *n += 1;
                // what is read back is whatever version was persisted; the name of the version
                // does not change when the bytes come back through the reader
                let v = sim.versions.get(&item).cloned().unwrap_or_else(|| format!("disk#{n}"));
                sim.versions.insert(item.clone(), v.clone());
                // the read that follows sees this version
                let _ = v;
            }
            "nop-write" => sim.probe("nop-write"),
            _ => {}
        }
    });
}

fn h_wrote(ty: &'static str, id: &dyn Debug) {
    let task = me();
    with(|sim| {
        let job = sim.job_of(task);
        let idt = format!("{id:?}");
        let item = format!("{ty}:{idt}");
        let n = sim.writes_by.entry((job.clone(), item.clone())).or_default();
        *n += 1;
        let version = format!("{job}#{n}");
        sim.emit(|| format!("{job} wrote {item} = {version}"));
        let count = {
            let c = sim.writes_by_job.entry(job.clone()).or_default();
            *c += 1;
            *c
        };
        let released: Vec<usize> = sim
            .held_until_write
            .iter()
            .filter(|(_, (j, n))| j == &job && *n <= count)
            .map(|(t, _)| *t)
            .collect();
        let any_released = !released.is_empty();
        for t in released {
            sim.held_until_write.remove(&t);
            sim.parked.remove(&t);
            sim.probe("held-send-released-mid-job");
        }
        if any_released {
            // ... and the writer now becomes the slow one, so that whatever the released
            // message sets in motion happens while the writer is still at work
            sim.parked.insert(task);
        }
        sim.written_items.insert(item.clone());
        if let Some(prev) = sim.versions.get(&item) {
            if !prev.starts_with(&format!("{job}#")) && job != MAIN {
                sim.rewriters.insert(job.clone());
            }
        }
        sim.versions.insert(item, version.clone());
        sim.by_ty.entry(ty).or_default().insert(idt, version);
    });
}

fn h_evict(ty: &'static str, id: &dyn Debug) -> bool {
    with(|sim| {
        if sim.evict.is_empty() {
            return false;
        }
        let item = format!("{ty}:{id:?}");
        let hit = sim.evict.contains(&item);
        if hit {
            sim.probe("evicted");
            sim.emit(|| format!("evict {item}"));
        }
        hit
    })
    .unwrap_or(false)
}

fn h_readback_enabled() -> bool {
    with(|sim| sim.plan().readback).unwrap_or(false)
}

fn first_difference(a: &[u8], b: &[u8]) -> String {
    let (ta, tb) = (String::from_utf8_lossy(a), String::from_utf8_lossy(b));
    let text = !ta.contains('\u{fffd}') && !tb.contains('\u{fffd}');
    if text {
        let (la, lb): (Vec<&str>, Vec<&str>) = (ta.lines().collect(), tb.lines().collect());
        // hash-ordered collections make line order meaningless; look for content first
        let (mut sa, mut sb) = (la.clone(), lb.clone());
        sa.sort();
        sb.sort();
        if sa == sb && la != lb {
            return "persisted forms hold the same lines in a different order".to_string();
        }
        if sa != sb {
            let only_a: Vec<&str> = sa.iter().filter(|l| !sb.contains(l)).take(3).map(|l| l.trim()).collect();
            let only_b: Vec<&str> = sb.iter().filter(|l| !sa.contains(l)).take(3).map(|l| l.trim()).collect();
            if !only_a.is_empty() || !only_b.is_empty() {
                return format!("only in what was written {only_a:?}, only in what was read back {only_b:?}");
            }
        }
        for i in 0..la.len().max(lb.len()) {
            let (x, y) = (la.get(i).copied().unwrap_or("<end>"), lb.get(i).copied().unwrap_or("<end>"));
            if x != y {
                return format!("line {}: written {:?}, read back {:?}", i + 1, x.trim(), y.trim());
            }
        }
        "persisted forms are identical".to_string()
    } else {
        match a.iter().zip(b.iter()).position(|(x, y)| x != y) {
            Some(i) => format!("byte {i} of {} vs {}", a.len(), b.len()),
            None if a.len() != b.len() => format!("length {} vs {}", a.len(), b.len()),
            None => "persisted forms are identical".to_string(),
        }
    }
}

fn h_readback(ty: &'static str, id: &dyn Debug, equal: Option<bool>, original: &[u8], restored: Option<&[u8]>) {
    with(|sim| {
        let item = format!("{ty}:{id:?}");
        let same_bytes = restored == Some(original);
        // A write-fonts table IS its binary form: two in-memory values that persist to the
        // same bytes are the same table (e.g. Gpos with empty vs absent optional parts), so
        // for those types the bytes decide; likewise the BE glyph, persisted as (name, glyf
        // bytes). serde-persisted types must compare equal. Where the type offers no
        // comparison there is no verdict: their persisted form may legitimately differ in the
        // order of hash-ordered collections.
        let verdict: Option<bool> = if ty.starts_with("write_fonts::") || ty == "fontbe::orchestration::Glyph" {
            Some(same_bytes)
        } else {
            equal
        };
        sim.probe(match (verdict, equal) {
            (Some(true), Some(false)) => "readback-equal-as-bytes-only",
            (Some(true), _) => "readback-equal",
            (Some(false), _) => "readback-DIFFERS",
            (None, _) => "readback-parsed",
        });
        sim.emit(|| format!("readback {item} eq={equal:?} same_bytes={same_bytes}"));
        let why = if verdict != Some(false) {
            String::new()
        } else {
            match restored {
                None => "the restored value panics when written again".to_string(),
                Some(r) => first_difference(original, r),
            }
        };
        sim.readbacks.push((item, verdict, why));
    });
}

fn h_event(what: &'static str, id: &dyn Debug, detail: Option<&dyn Debug>) {
    let task = me();
    let idt = format!("{id:?}");
    let do_yield = with(|sim| {
        // the roles this job plays: the strategy's own victim and any further singled-out jobs
        let mut roles: Vec<String> = Vec::new();
        if sim.plan().strategy.victim.as_deref() == Some(idt.as_str()) {
            roles.push(sim.plan().strategy.name.clone());
        }
        for (name, job) in &sim.plan().strategy.also {
            if job == &idt {
                roles.push(name.clone());
            }
        }
        let has = |r: &str| roles.iter().any(|x| x == r);
        match what {
            "added" => {
                let also = detail.map(|d| crate::order::parse_id_list(&format!("{d:?}"))).unwrap_or_default();
                let handling = sim.handling.clone();
                let info = sim.job_info.entry(idt.clone()).or_default();
                info.also = also;
                if let Some(h) = handling {
                    info.after.push(h);
                }
                false
            }
            "deps-set" => {
                let handling = sim.handling.clone();
                if let Some(h) = handling {
                    sim.job_info.entry(idt.clone()).or_default().after.push(h);
                }
                false
            }
            "launch" => {
                sim.handling = None;
                let text = detail.map(|d| format!("{d:?}")).unwrap_or_default();
                sim.job_info.entry(idt.clone()).or_default().access = text;
                let window = !sim.ended_unhandled.is_empty();
                if window {
                    sim.probe("launch-while-completion-unhandled");
                }
                sim.emit(|| format!("launch {idt} deps={:?}", detail.map(|d| format!("{d:?}"))));
                false
            }
            "popped" => {
                sim.task_job.insert(task, idt.clone());
                let seq = sim.seq + 1;
                sim.jobs.insert(idt.clone(), JobRec { start: seq, end: None });
                sim.job_order.push(idt.clone());
                sim.started_count += 1;
                sim.emit(|| format!("start {idt} task={task}"));
                if has("delay-start") {
                    sim.parked.insert(task);
                    sim.probe("victim-parked");
                }
                if has("rush") {
                    sim.rushed = Some(task);
                    sim.probe("victim-rushed");
                }
                true
            }
            "aborted" => {
                sim.probe("job-aborted-after-panic");
                sim.emit(|| format!("aborted {idt}"));
                if let Some(j) = sim.jobs.get_mut(&idt) {
                    j.end = Some(sim.seq);
                }
                false
            }
            "exec-done" => {
                let seq = sim.seq + 1;
                if let Some(j) = sim.jobs.get_mut(&idt) {
                    j.end = Some(seq);
                }
                sim.job_end_order.push(idt.clone());
                sim.ended_unhandled.insert(idt.clone());
                sim.emit(|| format!("end {idt} ok={:?}", detail.map(|d| format!("{d:?}"))));
                if has("delay-done-a") {
                    sim.parked.insert(task);
                    sim.probe("victim-parked");
                }
                true
            }
            "pre-send" => {
                sim.emit(|| format!("pre-send {idt}"));
                if has("delay-done-b") {
                    sim.parked.insert(task);
                    sim.probe("victim-parked");
                }
                // hold-send-until-write:<job>:<n> - keep the completion message back until
                // another job is in the middle of its work
                if let Some(spec) = roles.iter().find_map(|r| r.strip_prefix("hold-send-until-write:")) {
                    if let Some((job, n)) = spec.rsplit_once(':') {
                        let n: u32 = n.parse().unwrap_or(1);
                        if sim.writes_by_job.get(job).copied().unwrap_or(0) < n {
                            sim.parked.insert(task);
                            sim.held_until_write.insert(task, (job.to_string(), n));
                            sim.probe("send-held-until-write");
                        }
                    }
                }
                true
            }
            "handle-success" => {
                sim.handling = Some(idt.clone());
                sim.ended_unhandled.remove(&idt);
                sim.coord_state ^= fnv(idt.as_bytes());
                let cs = sim.coord_state;
                sim.coord_states.insert(cs);
                sim.emit(|| format!("handle-success {idt}"));
                false
            }
            _ => {
                sim.emit(|| format!("{what} {idt}"));
                false
            }
        }
    })
    .unwrap_or(false);
    if do_yield && IN_EXEC.load(std::sync::atomic::Ordering::SeqCst) {
        shuttle::thread::yield_now();
    }
}

fn h_pre_exec(id: &dyn Debug) -> Option<String> {
    let idt = format!("{id:?}");
    let verdict = with(|sim| {
        let nth_started = sim.started_count.saturating_sub(1);
        let faults = sim.plan().faults.clone();
        for f in faults {
            if f.kind != "job-panic" && f.kind != "job-err" {
                continue;
            }
            let hit = match &f.target {
                Some(t) => t == &idt,
                None => f.nth == nth_started,
            };
            if hit {
                *sim.faults_fired.entry(f.kind.clone()).or_default() += 1;
                sim.fault_log.push(format!("{} in {idt}", f.kind));
                sim.emit(|| format!("FAULT {} in {idt}", f.kind));
                return Some(f.kind.clone());
            }
        }
        None
    })
    .flatten();
    match verdict.as_deref() {
        Some("job-panic") => panic!("injected panic in {idt}"),
        Some(_) => Some(format!("injected failure in {idt}")),
        None => None,
    }
}

fn h_io_step(what: &'static str, path: &Path) -> Option<std::io::Error> {
    with(|sim| {
        let faults = sim.plan().faults.clone();
        sim.emit(|| format!("io-step {what} {}", path.file_name().and_then(|s| s.to_str()).unwrap_or("?")));
        for f in faults {
            if f.kind == "io-step-err" && f.target.as_deref().map(|t| t == what).unwrap_or(true) {
                *sim.faults_fired.entry(format!("io-step-err:{what}")).or_default() += 1;
                sim.fault_log.push(format!("io-step-err at {what}"));
                return Some(std::io::Error::from_raw_os_error(f.arg as i32));
            }
        }
        None
    })
    .flatten()
}

fn h_wrap_writer(id: &dyn Debug, path: &Path, inner: Box<dyn Write>) -> Box<dyn Write> {
    crate::storage::wrap_writer(format!("{id:?}"), path, inner)
}

fn h_wrap_reader(id: &dyn Debug, path: &Path, inner: Box<dyn Read>) -> Box<dyn Read> {
    crate::storage::wrap_reader(format!("{id:?}"), path, inner)
}

pub fn install_hooks() {
    fontdrasil::verif::install(fontdrasil::verif::Hooks {
        access: h_access,
        note: h_note,
        wrote: h_wrote,
        evict: h_evict,
        readback_enabled: h_readback_enabled,
        readback: h_readback,
        wrap_writer: h_wrap_writer,
        wrap_reader: h_wrap_reader,
        event: h_event,
        pre_exec: h_pre_exec,
        io_step: h_io_step,
    });
}

// used by storage.rs
pub fn storage_event(op: &str, id: &str, path: &Path) -> u64 {
    let in_exec = lock().as_ref().map(|s| s.active).unwrap_or(false);
    if !in_exec {
        return 0;
    }
    let task = me();
    with(|sim| {
        let job = sim.job_of(task);
        let p = path.to_string_lossy().to_string();
        sim.emit(|| format!("{job} {op} {id} {}", path.file_name().and_then(|s| s.to_str()).unwrap_or("?")));
        let seq = sim.seq;
        sim.storage.push(StorageOp { seq, job, op: op.to_string(), id: id.to_string(), path: p });
        sim.next_writer += 1;
        sim.next_writer
    })
    .unwrap_or(0)
}

pub fn with_sim<R>(f: impl FnOnce(&mut Sim) -> R) -> Option<R> {
    with(f)
}

impl Sim {
    pub fn fire(&mut self, kind: &str, what: String) {
        *self.faults_fired.entry(kind.to_string()).or_default() += 1;
        self.fault_log.push(what);
    }
    pub fn plan_ref(&self) -> &Plan {
        self.plan()
    }
    pub fn note_probe(&mut self, name: &str) {
        self.probe(name)
    }
}
