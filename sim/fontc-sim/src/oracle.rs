//! Oracles: what a run must satisfy, alone or against the reference run of its group.

use serde::{Deserialize, Serialize};

use crate::exec::ExecRecord;

#[derive(Clone, Debug, Serialize, Deserialize, PartialEq)]
pub struct Violation {
    pub property: String,
    /// stable class name, used to match known findings and to decide "same violation" when minimising
    pub class: String,
    pub detail: String,
}

/// The failure texts C02 names, plus the scheduler's own consistency panics
const C02_TEXTS: &[&str] = &[
    "Unable to proceed",
    "is not available",
    "Illegal read",
    "Illegal write",
    "completed but isn't pending",
    "Multiple completions",
    "Repeat signals",
    "No errors but only",
    "Not all counts by discriminant are 0",
    "Spawned more jobs than items available",
    "Blocking read failed",
    "Channel closed before reading completed",
    "has to be pending",
    "No count of type for runnable",
    "Missing data, dependency management failed us",
];

pub fn c02_failure_class(rec: &ExecRecord) -> Option<String> {
    match rec.outcome.class.as_str() {
        "deadlock" => return Some("deadlock".into()),
        "steps-exhausted" => return Some("steps-exhausted".into()),
        _ => {}
    }
    let mut texts = vec![rec.outcome.detail.clone()];
    texts.extend(rec.panics.iter().cloned());
    for t in &texts {
        for pat in C02_TEXTS {
            if t.contains(pat) {
                return Some(format!("graph-failure({pat})"));
            }
        }
    }
    None
}

fn first_diff_table(a: &[u8], b: &[u8]) -> String {
    use write_fonts::read::{FontRef, TableProvider as _};
    let (Ok(fa), Ok(fb)) = (FontRef::new(a), FontRef::new(b)) else {
        return "unparseable".into();
    };
    let _ = (fa.head().ok(), fb.head().ok());
    let ta: Vec<_> = fa.table_directory().table_records().iter().map(|r| r.tag()).collect();
    let tb: Vec<_> = fb.table_directory().table_records().iter().map(|r| r.tag()).collect();
    if ta != tb {
        return format!("table set {:?} vs {:?}", ta.iter().map(|t| t.to_string()).collect::<Vec<_>>(), tb.iter().map(|t| t.to_string()).collect::<Vec<_>>());
    }
    let mut diffs = Vec::new();
    for t in ta {
        let da = fa.table_data(t).map(|d| d.as_bytes().to_vec());
        let db = fb.table_data(t).map(|d| d.as_bytes().to_vec());
        if da != db {
            let (da, db) = (da.unwrap_or_default(), db.unwrap_or_default());
            let off = da.iter().zip(db.iter()).position(|(x, y)| x != y).unwrap_or(da.len().min(db.len()));
            diffs.push(format!("{t}@{off}(len {} vs {})", da.len(), db.len()));
        }
    }
    if diffs.is_empty() { "directory/padding only".into() } else { diffs.join(" ") }
}

/// C01: same source, options and SOURCE_DATE_EPOCH => same bytes, whatever else varied.
pub fn c01(reference: &ExecRecord, rec: &ExecRecord) -> Vec<Violation> {
    let mut out = Vec::new();
    if reference.outcome.class != "ok" {
        // C01 speaks of compilable sources
        return out;
    }
    if rec.outcome.class != "ok" {
        // failures the task graph is answerable for belong to C02
        if c02_failure_class(rec).is_none() {
            out.push(Violation {
                property: "C01".into(),
                class: "outcome-differs".into(),
                detail: format!("reference built a font, this run ended {}: {}", rec.outcome.class, trunc(&rec.outcome.detail, 300)),
            });
        }
        return out;
    }
    match (reference.font.as_ref(), rec.font.as_ref()) {
        (Some(a), Some(b)) if a == b => {}
        (Some(a), Some(b)) => out.push(Violation {
            property: "C01".into(),
            class: "bytes-differ".into(),
            detail: format!(
                "sha {} vs reference {}; differing: {}",
                rec.font_sha.clone().unwrap_or_default(),
                reference.font_sha.clone().unwrap_or_default(),
                first_diff_table(a, b)
            ),
        }),
        _ => out.push(Violation {
            property: "C01".into(),
            class: "bytes-differ".into(),
            detail: "a font file is missing".into(),
        }),
    }
    out
}

pub fn trunc(s: &str, n: usize) -> String {
    if s.len() <= n {
        return s.to_string();
    }
    let mut cut = n;
    while !s.is_char_boundary(cut) {
        cut -= 1;
    }
    format!("{}…", &s[..cut])
}

/// C02 O1 + O2 on a single run of a source whose reference run succeeded
pub fn c02_single(reference_ok: bool, rec: &ExecRecord) -> Vec<Violation> {
    let mut out = Vec::new();
    if reference_ok && rec.outcome.class != "ok" {
        if let Some(class) = c02_failure_class(rec) {
            out.push(Violation {
                property: "C02".into(),
                class,
                detail: format!("{}: {}", rec.outcome.class, trunc(&rec.outcome.detail, 400)),
            });
        }
    }
    for r in &rec.races {
        out.push(Violation {
            property: "C02".into(),
            class: "unordered-access".into(),
            detail: format!(
                "{} by {} and {} by {} on {} while both were running",
                r.first_op, r.first_job, r.second_op, r.second_job, r.item
            ),
        });
    }
    out
}

/// C02 O3: every job sees the same producers as in the reference run
pub fn c02_producers(reference: &ExecRecord, rec: &ExecRecord) -> Vec<Violation> {
    let mut out = Vec::new();
    if reference.outcome.class != "ok" || rec.outcome.class != "ok" {
        return out;
    }
    for (job, items) in &rec.reads {
        if job == crate::sim::MAIN {
            continue;
        }
        let Some(ref_items) = reference.reads.get(job) else { continue };
        for (item, versions) in items {
            let Some(ref_versions) = ref_items.get(item) else { continue };
            if versions != ref_versions {
                out.push(Violation {
                    property: "C02".into(),
                    class: "producer-differs".into(),
                    detail: format!("{job} read {item} as {versions:?}, in the reference run as {ref_versions:?}"),
                });
                if out.len() >= 5 {
                    return out;
                }
            }
        }
    }
    for (job, tys) in &rec.scans {
        if job == crate::sim::MAIN {
            continue;
        }
        let Some(ref_tys) = reference.scans.get(job) else { continue };
        for (ty, hashes) in tys {
            let Some(ref_hashes) = ref_tys.get(ty) else { continue };
            if hashes != ref_hashes {
                // describe the difference through the membership tables
                let mine: Vec<_> = hashes.difference(ref_hashes).collect();
                let theirs: Vec<_> = ref_hashes.difference(hashes).collect();
                let mut detail = format!("{job} scanned {ty} and saw different members/producers than in the reference run");
                if let (Some(a), Some(b)) = (
                    mine.first().and_then(|h| rec.scan_tab.get(h)),
                    theirs.first().and_then(|h| reference.scan_tab.get(h)),
                ) {
                    let sa: std::collections::BTreeSet<_> = a.iter().collect();
                    let sb: std::collections::BTreeSet<_> = b.iter().collect();
                    let only_a: Vec<_> = sa.difference(&sb).take(3).collect();
                    let only_b: Vec<_> = sb.difference(&sa).take(3).collect();
                    detail.push_str(&format!(": here {only_a:?}, reference {only_b:?}"));
                }
                out.push(Violation { property: "C02".into(), class: "producer-differs".into(), detail });
                if out.len() >= 5 {
                    return out;
                }
            }
        }
    }
    out
}
