//! Oracles: what a run must satisfy, alone or against the reference run of its group.

use std::collections::BTreeMap;

use serde::{Deserialize, Serialize};

use crate::exec::ExecRecord;

#[derive(Clone, Debug, Serialize, Deserialize, PartialEq)]
pub struct Violation {
    pub property: String,
    /// stable class name, used to match known findings and to decide "same violation" when minimising
    pub class: String,
    pub detail: String,
}

/// The failure texts C02 names, plus the scheduler's own consistency panics
const C02_TEXTS: &[&str] = &[
    "Unable to proceed",
    "is not available",
    "Illegal read",
    "Illegal write",
    "completed but isn't pending",
    "Multiple completions",
    "Repeat signals",
    "No errors but only",
    "Not all counts by discriminant are 0",
    "Spawned more jobs than items available",
    "Blocking read failed",
    "Channel closed before reading completed",
    "has to be pending",
    "No count of type for runnable",
    "Missing data, dependency management failed us",
];

pub fn c02_failure_class(rec: &ExecRecord) -> Option<String> {
    match rec.outcome.class.as_str() {
        "deadlock" => return Some("deadlock".into()),
        "steps-exhausted" => return Some("steps-exhausted".into()),
        _ => {}
    }
    let mut texts = vec![rec.outcome.detail.clone()];
    texts.extend(rec.panics.iter().cloned());
    for t in &texts {
        for pat in C02_TEXTS {
            if t.contains(pat) {
                return Some(format!("graph-failure({pat})"));
            }
        }
    }
    None
}

fn first_diff_table(a: &[u8], b: &[u8]) -> String {
    use write_fonts::read::{FontRef, TableProvider as _};
    let (Ok(fa), Ok(fb)) = (FontRef::new(a), FontRef::new(b)) else {
        return "unparseable".into();
    };
    let _ = (fa.head().ok(), fb.head().ok());
    let ta: Vec<_> = fa.table_directory().table_records().iter().map(|r| r.tag()).collect();
    let tb: Vec<_> = fb.table_directory().table_records().iter().map(|r| r.tag()).collect();
    if ta != tb {
        return format!("table set {:?} vs {:?}", ta.iter().map(|t| t.to_string()).collect::<Vec<_>>(), tb.iter().map(|t| t.to_string()).collect::<Vec<_>>());
    }
    let mut diffs = Vec::new();
    for t in ta {
        let da = fa.table_data(t).map(|d| d.as_bytes().to_vec());
        let db = fb.table_data(t).map(|d| d.as_bytes().to_vec());
        if da != db {
            let (da, db) = (da.unwrap_or_default(), db.unwrap_or_default());
            let off = da.iter().zip(db.iter()).position(|(x, y)| x != y).unwrap_or(da.len().min(db.len()));
            diffs.push(format!("{t}@{off}(len {} vs {})", da.len(), db.len()));
        }
    }
    if diffs.is_empty() { "directory/padding only".into() } else { diffs.join(" ") }
}

/// C01: same source, options and SOURCE_DATE_EPOCH => same bytes, whatever else varied.
pub fn c01(reference: &ExecRecord, rec: &ExecRecord) -> Vec<Violation> {
    let mut out = Vec::new();
    if reference.outcome.class != "ok" {
        // C01 speaks of compilable sources
        return out;
    }
    if rec.outcome.class != "ok" {
        // failures the task graph is answerable for belong to C02
        if c02_failure_class(rec).is_none() {
            out.push(Violation {
                property: "C01".into(),
                class: "outcome-differs".into(),
                detail: format!("reference built a font, this run ended {}: {}", rec.outcome.class, trunc(&rec.outcome.detail, 300)),
            });
        }
        return out;
    }
    match (reference.font.as_ref(), rec.font.as_ref()) {
        (Some(a), Some(b)) if a == b => {}
        (Some(a), Some(b)) => out.push(Violation {
            property: "C01".into(),
            class: "bytes-differ".into(),
            detail: format!(
                "sha {} vs reference {}; differing: {}",
                rec.font_sha.clone().unwrap_or_default(),
                reference.font_sha.clone().unwrap_or_default(),
                first_diff_table(a, b)
            ),
        }),
        _ => out.push(Violation {
            property: "C01".into(),
            class: "bytes-differ".into(),
            detail: "a font file is missing".into(),
        }),
    }
    out
}

pub fn trunc(s: &str, n: usize) -> String {
    if s.len() <= n {
        return s.to_string();
    }
    let mut cut = n;
    while !s.is_char_boundary(cut) {
        cut -= 1;
    }
    format!("{}…", &s[..cut])
}

/// C02 O1 + O2 on a single run of a source whose reference run succeeded
pub fn c02_single(reference_ok: bool, rec: &ExecRecord) -> Vec<Violation> {
    let mut out = Vec::new();
    if reference_ok && rec.outcome.class != "ok" {
        if let Some(class) = c02_failure_class(rec) {
            out.push(Violation {
                property: "C02".into(),
                class,
                detail: format!("{}: {}", rec.outcome.class, trunc(&rec.outcome.detail, 400)),
            });
        }
    }
    for (item, a, aop, b, bop) in rec.unordered_pairs.iter().take(4) {
        out.push(Violation {
            property: "C02".into(),
            class: "undeclared-order".into(),
            detail: format!(
                "{aop} by {a} and {bop} by {b} on {item}: nothing the scheduler was told (dependencies at launch, jobs created or released while handling another) orders the two"
            ),
        });
    }
    for r in &rec.races {
        out.push(Violation {
            property: "C02".into(),
            class: "unordered-access".into(),
            detail: format!(
                "{} by {} and {} by {} on {} while both were running",
                r.first_op, r.first_job, r.second_op, r.second_job, r.item
            ),
        });
    }
    out
}

/// C02 O3: every job sees the same producers as in the reference run
pub fn c02_producers(reference: &ExecRecord, rec: &ExecRecord) -> Vec<Violation> {
    let mut out = Vec::new();
    if reference.outcome.class != "ok" || rec.outcome.class != "ok" {
        return out;
    }
    for (job, items) in &rec.reads {
        if job == crate::sim::MAIN {
            continue;
        }
        let Some(ref_items) = reference.reads.get(job) else { continue };
        for (item, versions) in items {
            let Some(ref_versions) = ref_items.get(item) else { continue };
            if versions != ref_versions {
                out.push(Violation {
                    property: "C02".into(),
                    class: "producer-differs".into(),
                    detail: format!("{job} read {item} as {versions:?}, in the reference run as {ref_versions:?}"),
                });
                if out.len() >= 5 {
                    return out;
                }
            }
        }
    }
    for (job, tys) in &rec.scans {
        if job == crate::sim::MAIN {
            continue;
        }
        let Some(ref_tys) = reference.scans.get(job) else { continue };
        for (ty, hashes) in tys {
            let Some(ref_hashes) = ref_tys.get(ty) else { continue };
            if hashes != ref_hashes {
                // describe the difference through the membership tables
                let mine: Vec<_> = hashes.difference(ref_hashes).collect();
                let theirs: Vec<_> = ref_hashes.difference(hashes).collect();
                let mut detail = format!("{job} scanned {ty} and saw different members/producers than in the reference run");
                if let (Some(a), Some(b)) = (
                    mine.first().and_then(|h| rec.scan_tab.get(h)),
                    theirs.first().and_then(|h| reference.scan_tab.get(h)),
                ) {
                    let sa: std::collections::BTreeSet<_> = a.iter().collect();
                    let sb: std::collections::BTreeSet<_> = b.iter().collect();
                    let only_a: Vec<_> = sa.difference(&sb).take(3).collect();
                    let only_b: Vec<_> = sb.difference(&sa).take(3).collect();
                    detail.push_str(&format!(": here {only_a:?}, reference {only_b:?}"));
                }
                out.push(Violation { property: "C02".into(), class: "producer-differs".into(), detail });
                if out.len() >= 5 {
                    return out;
                }
            }
        }
    }
    out
}

/// Structural soundness of an output font: what any consumer needs before it can use the file
/// at all. Nothing here judges design or semantics, only that the tables a TrueType-flavoured
/// font must have are there, parse, and agree with each other on sizes and counts.
pub fn font_problems(bytes: &[u8]) -> Vec<String> {
    use write_fonts::read::{FontRef, TableProvider as _, types::{GlyphId, Tag}, tables::glyf::Glyph};
    let mut out = Vec::new();
    let font = match FontRef::new(bytes) {
        Ok(f) => f,
        Err(e) => return vec![format!("not an sfnt: {e}")],
    };
    let has = |t: &[u8; 4]| font.table_data(Tag::new(t)).is_some();
    for t in [b"head", b"hhea", b"maxp", b"OS/2", b"hmtx", b"cmap", b"name", b"post", b"glyf", b"loca"] {
        if !has(t) {
            out.push(format!("required table {} is missing", String::from_utf8_lossy(t)));
        }
    }
    if !out.is_empty() {
        return out;
    }
    macro_rules! parse {
        ($name:literal, $e:expr) => {
            match $e {
                Ok(t) => Some(t),
                Err(e) => {
                    out.push(format!("{} does not parse: {e}", $name));
                    None
                }
            }
        };
    }
    let head = parse!("head", font.head());
    let maxp = parse!("maxp", font.maxp());
    let hhea = parse!("hhea", font.hhea());
    let _ = parse!("OS/2", font.os2());
    let _ = parse!("hmtx", font.hmtx());
    let _ = parse!("cmap", font.cmap());
    let _ = parse!("name", font.name());
    let post = parse!("post", font.post());
    let glyf = parse!("glyf", font.glyf());
    let loca = parse!("loca", font.loca(None));
    if has(b"fvar") { let _ = parse!("fvar", font.fvar()); }
    if has(b"gvar") { let _ = parse!("gvar", font.gvar()); }
    if has(b"avar") { let _ = parse!("avar", font.avar()); }
    if has(b"HVAR") { let _ = parse!("HVAR", font.hvar()); }
    if has(b"MVAR") { let _ = parse!("MVAR", font.mvar()); }
    if has(b"STAT") { let _ = parse!("STAT", font.stat()); }
    if has(b"GDEF") { let _ = parse!("GDEF", font.gdef()); }
    if has(b"GSUB") { let _ = parse!("GSUB", font.gsub()); }
    if has(b"GPOS") { let _ = parse!("GPOS", font.gpos()); }
    if has(b"COLR") { let _ = parse!("COLR", font.colr()); }
    if has(b"CPAL") { let _ = parse!("CPAL", font.cpal()); }
    if let Some(head) = &head {
        let upem = head.units_per_em();
        if !(16..=16384).contains(&upem) {
            out.push(format!("head.unitsPerEm is {upem}, outside 16..=16384"));
        }
    }
    let n = maxp.as_ref().map(|m| m.num_glyphs() as usize).unwrap_or(0);
    if n == 0 {
        out.push("maxp.numGlyphs is 0".into());
    }
    if let Some(hhea) = &hhea {
        let nm = hhea.number_of_h_metrics() as usize;
        if nm > n || (nm == 0 && n > 0) {
            out.push(format!("hhea.numberOfHMetrics {nm} does not fit maxp.numGlyphs {n}"));
        }
        let need = nm * 4 + (n.saturating_sub(nm)) * 2;
        let have = font.table_data(Tag::new(b"hmtx")).map(|d| d.len()).unwrap_or(0);
        if have < need {
            out.push(format!("hmtx holds {have} bytes, {need} needed for {n} glyphs"));
        }
    }
    if let (Some(loca), Some(glyf)) = (&loca, &glyf) {
        if loca.len() != n {
            out.push(format!("loca has {} entries for {n} glyphs", loca.len()));
        }
        if !loca.all_offsets_are_ascending() {
            out.push("loca offsets are not ascending".into());
        }
        let glyf_len = font.table_data(Tag::new(b"glyf")).map(|d| d.len()).unwrap_or(0);
        for gid in 0..n.min(loca.len()) {
            match loca.get_glyf(GlyphId::new(gid as u32), glyf) {
                Ok(None) => {}
                Ok(Some(Glyph::Simple(g))) => {
                    let ends: Vec<u16> = g.end_pts_of_contours().iter().map(|e| e.get()).collect();
                    if ends.windows(2).any(|w| w[0] >= w[1]) {
                        out.push(format!("glyph {gid}: contour end points are not increasing"));
                        break;
                    }
                }
                Ok(Some(Glyph::Composite(g))) => {
                    if let Some(c) = g.components().find(|c| c.glyph.to_u32() as usize >= n) {
                        out.push(format!("glyph {gid}: component refers to glyph {} of {n}", c.glyph.to_u32()));
                        break;
                    }
                }
                Err(e) => {
                    out.push(format!("glyph {gid} does not parse: {e} (glyf is {glyf_len} bytes)"));
                    break;
                }
            }
        }
    }
    if let Some(post) = &post {
        if post.version() == write_fonts::read::types::Version16Dot16::VERSION_2_0 {
            let names = post.num_names();
            if names != n {
                out.push(format!("post names {names} glyphs, maxp counts {n}"));
            }
            // the Pascal strings must tile the rest of the table and be as many as the indexes ask for
            // (what bytes a name holds is not judged: sources may use names outside ASCII)
            let raw = font.table_data(Tag::new(b"post")).map(|d| d.as_bytes().to_vec()).unwrap_or_default();
            let strings = raw.get(34 + 2 * names..).unwrap_or(&[]);
            let (mut i, mut count) = (0usize, 0usize);
            while i < strings.len() {
                i += 1 + strings[i] as usize;
                count += 1;
            }
            if i != strings.len() {
                out.push(format!("post: the last of {count} name strings overruns the table by {} bytes", i - strings.len()));
            }
            let wanted = post
                .glyph_name_index()
                .map(|ix| ix.iter().map(|v| v.get() as usize).filter(|v| *v >= 258).map(|v| v - 257).max().unwrap_or(0))
                .unwrap_or(0);
            if wanted > count {
                out.push(format!("post: glyph name index asks for string {wanted}, the table holds {count}"));
            }
        }
    }
    out.truncate(6);
    out
}

/// C15: whatever the input and whatever fails, the run ends, within bounds, in exactly one of
/// "success and a readable font" or "a diagnostic, failure, and no font".
pub fn c15(plan: &crate::plan::Plan, rec: &ExecRecord) -> Vec<Violation> {
    let mut out = Vec::new();
    let mut push = |class: &str, detail: String| {
        out.push(Violation { property: "C15".into(), class: class.into(), detail });
    };
    let injected: u64 = rec
        .faults_fired
        .iter()
        .filter(|(k, _)| k.starts_with("job-") || k.starts_with("io-step-err"))
        .map(|(_, v)| *v)
        .sum();
    match rec.outcome.class.as_str() {
        "signal" => push("killed", format!("the process died: {}", rec.outcome.detail)),
        "cpu-exhausted" => push("hang", format!("no result within the CPU bound ({} s by default): {}", crate::child::CPU_LIMIT_S, rec.outcome.detail)),
        "deadlock" => push("deadlock", trunc(&rec.outcome.detail, 300)),
        "steps-exhausted" => push("hang", trunc(&rec.outcome.detail, 300)),
        "ok" => {
            if injected > 0 {
                push("ok-after-injected-failure", format!("success reported although {:?} fired", rec.fault_log));
            }
            match rec.font_ok {
                Some(true) => {
                    if !rec.font_problems.is_empty() {
                        push("bogus-font", format!("success reported but the font is broken: {}", rec.font_problems.join("; ")));
                    }
                }
                Some(false) => push("ok-without-font", "success reported but the output is not a readable sfnt".into()),
                None => push("ok-without-font", "success reported but no output file exists".into()),
            }
        }
        "err" | "panic" => {
            if rec.outcome.detail.trim().is_empty() {
                push("empty-diagnostic", format!("{} without a message", rec.outcome.class));
            }
            if !plan.options.emit_ir && rec.font_len > 0 && !rec.out_existed_before {
                push("err-with-font", format!("failure reported ({}) but {} bytes were written to the output file", trunc(&rec.outcome.detail, 120), rec.font_len));
            }
        }
        _ => {}
    }
    out
}

/// C14: IR emission changes nothing about the font (T), everything persisted reads back
/// equal (R), and no two items share a file (P).
pub fn c14(reference: &ExecRecord, rec: &ExecRecord) -> Vec<Violation> {
    let mut out = Vec::new();
    // T: reference is the same source and options without --emit-ir
    if reference.outcome.class == "ok" {
        if rec.outcome.class != "ok" {
            out.push(Violation {
                property: "C14".into(),
                class: "ir-changes-outcome".into(),
                detail: format!("builds without --emit-ir, with it ended {}: {}", rec.outcome.class, trunc(&rec.outcome.detail, 300)),
            });
        } else {
            for v in c01(reference, rec) {
                out.push(Violation { property: "C14".into(), class: "ir-changes-font".into(), detail: v.detail });
            }
        }
    }
    // R1
    for (item, equal, why) in &rec.readbacks {
        if *equal == Some(false) && !item.contains("ExtraFeaTables") {
            out.push(Violation {
                property: "C14".into(),
                class: "readback-differs".into(),
                detail: format!("{item} read back from its file is not equal to the value that was written ({why})"),
            });
        }
    }
    // P
    let mut owner: BTreeMap<String, String> = BTreeMap::new();
    let mut folded: BTreeMap<String, (String, String)> = BTreeMap::new();
    for op in rec.storage.iter().filter(|o| o.op == "open-write") {
        match owner.get(&op.path) {
            Some(prev) if prev != &op.id => out.push(Violation {
                property: "C14".into(),
                class: "path-shared".into(),
                detail: format!("{} and {} are both written to {}", prev, op.id, op.path),
            }),
            Some(_) => {}
            None => {
                owner.insert(op.path.clone(), op.id.clone());
            }
        }
        let f = op.path.to_lowercase();
        match folded.get(&f) {
            Some((prev_id, prev_path)) if prev_id != &op.id && prev_path != &op.path => out.push(Violation {
                property: "C14".into(),
                class: "path-shared".into(),
                detail: format!("{} ({}) and {} ({}) collide on a case-insensitive volume", prev_id, prev_path, op.id, op.path),
            }),
            Some(_) => {}
            None => {
                folded.insert(f, (op.id.clone(), op.path.clone()));
            }
        }
    }
    out.truncate(6);
    out
}
