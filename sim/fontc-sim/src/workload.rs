//! Which executions a check consists of: groups of one reference plan plus variations,
//! all derived from VERIF_SEED.

use std::path::{Path, PathBuf};

use crate::{
    exec::{ExecRecord, TESTDATA},
    plan::{Fault, History, Opts, Plan, Prng, Strategy},
};

pub fn corpus() -> Vec<String> {
    fn walk(dir: &Path, out: &mut Vec<PathBuf>) {
        let Ok(rd) = std::fs::read_dir(dir) else { return };
        let mut entries: Vec<PathBuf> = rd.filter_map(|e| e.ok()).map(|e| e.path()).collect();
        entries.sort();
        for p in entries {
            let ext = p.extension().and_then(|e| e.to_str()).unwrap_or("");
            match ext {
                "designspace" | "glyphs" => out.push(p),
                "ufo" | "glyphspackage" => out.push(p),
                "fontra" => {}
                _ if p.is_dir() => walk(&p, out),
                _ => {}
            }
        }
    }
    let mut out = Vec::new();
    walk(Path::new(TESTDATA), &mut out);
    out.into_iter()
        .filter_map(|p| p.strip_prefix(TESTDATA).ok().map(|r| r.to_string_lossy().to_string()))
        .collect()
}

#[derive(Clone, Debug)]
pub struct Group {
    pub property: String,
    pub index: usize,
    pub seed: u64,
    pub reference: Plan,
    /// how many variations / which recipe
    pub recipe: Recipe,
}

#[derive(Clone, Debug)]
pub enum Recipe {
    /// n variations of everything C01 says must not matter
    C01 { n: usize },
    /// n_rand random/pct schedules + n_victims victim strategies (usize::MAX = full sweep)
    C02 { n_rand: usize, n_victims: usize },
}

pub fn option_sets() -> Vec<Opts> {
    let o = |enable: &[&str], disable: &[&str]| Opts {
        enable: enable.iter().map(|s| s.to_string()).collect(),
        disable: disable.iter().map(|s| s.to_string()).collect(),
        ..Default::default()
    };
    vec![
        Opts::default(),
        o(&["flatten"], &[]),
        o(&["decompose"], &[]),
        o(&["decompose_transformed", "keep_direction"], &["production_names"]),
        o(&["propagate_anchors", "erase_open_corners"], &["prefer_simple"]),
        Opts { skip_features: true, ..Default::default() },
        Opts { compile_debg: true, emit_timing: true, ..o(&["flatten"], &["prefer_simple"]) },
        Opts { emit_ir: true, output_in_ir_dir: true, ..Default::default() },
        Opts { emit_ir: true, emit_debug: true, ..o(&["flatten", "decompose_transformed"], &[]) },
    ]
}

const WORKERS: &[usize] = &[1, 2, 3, 4, 8, 0];

fn random_mask(rng: &mut Prng) -> u64 {
    match rng.below(4) {
        0 => 0,
        1 => rng.next() & rng.next(),
        2 => rng.next(),
        _ => u64::MAX,
    }
}

pub fn random_strategy(rng: &mut Prng, reference: &ExecRecord) -> Strategy {
    let victim = |rng: &mut Prng| {
        if reference.jobs.is_empty() { None } else { Some(rng.pick(&reference.jobs).clone()) }
    };
    let seed = rng.next();
    let base = Some(if rng.chance(1, 3) { "seq" } else { "rand" }.to_string());
    match rng.below(12) {
        0..=2 => Strategy { name: "rand".into(), seed, victim: None, depth: 0, horizon: 0, base: None },
        3 | 4 => Strategy {
            name: "pct".into(),
            seed,
            victim: None,
            depth: 1 + rng.below(6),
            horizon: reference.steps.max(100),
            base: None,
        },
        5 => Strategy { name: "starve-coord".into(), seed, victim: None, depth: 0, horizon: 0, base },
        6 => Strategy { name: "eager-coord".into(), seed, victim: None, depth: 0, horizon: 0, base },
        7 | 8 => Strategy { name: "delay-start".into(), seed, victim: victim(rng), depth: 0, horizon: 0, base },
        9 => Strategy { name: "delay-done-a".into(), seed, victim: victim(rng), depth: 0, horizon: 0, base },
        10 => Strategy { name: "delay-done-b".into(), seed, victim: victim(rng), depth: 0, horizon: 0, base },
        _ => Strategy { name: "rush".into(), seed, victim: victim(rng), depth: 0, horizon: 0, base },
    }
}

pub fn groups(property: &str, tier: &str, seed: u64) -> Vec<Group> {
    let mut rng = Prng::new(seed).fork(property);
    let corpus = corpus();
    let opts = option_sets();
    let mut out = Vec::new();
    let quick = tier != "thorough";
    match property {
        "C01" => {
            for src in &corpus {
                // default options always, plus a rotating choice of the others
                let n_sets = if quick { 2 } else { 6 };
                let mut chosen = vec![0usize];
                while chosen.len() < n_sets {
                    let k = 1 + rng.below(opts.len() - 1);
                    if !chosen.contains(&k) {
                        chosen.push(k);
                    }
                }
                for k in chosen {
                    let mut reference = Plan::reference("C01", src, opts[k].clone());
                    reference.source_date_epoch = Some(946_684_800 + (rng.next() % 1_500_000_000) as i64);
                    let gseed = rng.next();
                    out.push(Group {
                        property: "C01".into(),
                        index: out.len(),
                        seed: gseed,
                        reference,
                        recipe: Recipe::C01 { n: if quick { 8 } else { 64 } },
                    });
                }
            }
        }
        "C02" => {
            for src in &corpus {
                let sets: Vec<usize> = if quick { vec![0, 1 + rng.below(5)] } else { vec![0, 1, 2, 5] };
                for k in sets {
                    let mut reference = Plan::reference("C02", src, opts[k].clone());
                    // yields at every Context access in the reference run too, so that its log
                    // has the same shape as the variations'
                    reference.hash_seed = rng.next();
                    let gseed = rng.next();
                    out.push(Group {
                        property: "C02".into(),
                        index: out.len(),
                        seed: gseed,
                        reference,
                        recipe: if quick {
                            Recipe::C02 { n_rand: 6, n_victims: 10 }
                        } else {
                            Recipe::C02 { n_rand: 60, n_victims: usize::MAX }
                        },
                    });
                }
            }
        }
        _ => {}
    }
    out
}

/// The variations of a group, known only once its reference run has been seen
pub fn variations(group: &Group, reference: &ExecRecord) -> Vec<Plan> {
    let mut rng = Prng::new(group.seed);
    let mut out = Vec::new();
    match &group.recipe {
        Recipe::C01 { n } => {
            for _ in 0..*n {
                let mut p = group.reference.clone();
                p.hash_seed = rng.next();
                p.epoch = 631_152_000 + (rng.next() % 3_155_760_000) as i64;
                p.workers = *rng.pick(WORKERS);
                p.strategy = random_strategy(&mut rng, reference);
                p.yield_mask = random_mask(&mut rng);
                out.push(p);
            }
        }
        Recipe::C02 { n_rand, n_victims } => {
            for _ in 0..*n_rand {
                let mut p = group.reference.clone();
                p.workers = *rng.pick(WORKERS);
                p.strategy = random_strategy(&mut rng, reference);
                p.yield_mask = random_mask(&mut rng);
                out.push(p);
            }
            let kinds = ["delay-start", "delay-done-a", "delay-done-b", "rush"];
            if *n_victims == usize::MAX {
                for job in &reference.jobs {
                    for kind in kinds {
                        for w in [2usize, 0] {
                            let mut p = group.reference.clone();
                            p.workers = w;
                            p.strategy = Strategy {
                                name: kind.into(),
                                seed: rng.next(),
                                victim: Some(job.clone()),
                                depth: 0,
                                horizon: 0,
                                base: Some(if rng.chance(1, 2) { "seq" } else { "rand" }.into()),
                            };
                            p.yield_mask = random_mask(&mut rng);
                            out.push(p);
                        }
                    }
                }
            } else if !reference.jobs.is_empty() {
                for _ in 0..*n_victims {
                    let mut p = group.reference.clone();
                    p.workers = *rng.pick(&[2usize, 3, 0]);
                    p.strategy = Strategy {
                        name: rng.pick(&kinds).to_string(),
                        seed: rng.next(),
                        victim: Some(rng.pick(&reference.jobs).clone()),
                        depth: 0,
                        horizon: 0,
                        base: Some(if rng.chance(1, 2) { "seq" } else { "rand" }.into()),
                    };
                    p.yield_mask = random_mask(&mut rng);
                    out.push(p);
                }
            }
        }
    }
    out
}

#[allow(dead_code)]
pub fn unused(_: Fault, _: History) {}
