//! Which executions a check consists of: groups of one reference plan plus variations,
//! all derived from VERIF_SEED.

use std::path::{Path, PathBuf};

use crate::{
    exec::{ExecRecord, testdata},
    plan::{Fault, History, Opts, Plan, Prng, Strategy},
};

pub fn corpus() -> Vec<String> {
    fn walk(dir: &Path, out: &mut Vec<PathBuf>) {
        let Ok(rd) = std::fs::read_dir(dir) else { return };
        let mut entries: Vec<PathBuf> = rd.filter_map(|e| e.ok()).map(|e| e.path()).collect();
        entries.sort();
        for p in entries {
            let ext = p.extension().and_then(|e| e.to_str()).unwrap_or("");
            match ext {
                "designspace" | "glyphs" => out.push(p),
                "ufo" | "glyphspackage" => out.push(p),
                "fontra" => {}
                _ if p.is_dir() => walk(&p, out),
                _ => {}
            }
        }
    }
    let mut out = Vec::new();
    walk(testdata(), &mut out);
    let mut all: Vec<String> = out
        .into_iter()
        .filter_map(|p| p.strip_prefix(testdata()).ok().map(|r| r.to_string_lossy().to_string()))
        .collect();
    // hand-written sources kept with the checks (absolute paths): shapes the shipped corpus lacks
    if let Some(extra) = extra_sources_dir() {
        let mut more = Vec::new();
        walk(&extra, &mut more);
        all.extend(
            more.into_iter()
                .filter_map(|p| p.strip_prefix(&extra).ok().map(|r| format!("extra:{}", r.to_string_lossy()))),
        );
    }
    all
}

/// Inputs built to hurt (C15 only): `<verif>/hostile/cases`. Those under `slow/` are known to
/// run into the CPU bound and get a short one.
pub fn hostile_cases_dir() -> Option<PathBuf> {
    let p = extra_sources_dir()?.parent()?.join("hostile").join("cases");
    p.is_dir().then_some(p)
}

pub fn hostile_corpus() -> Vec<String> {
    let Some(dir) = hostile_cases_dir() else { return vec![] };
    fn walk(dir: &Path, out: &mut Vec<PathBuf>) {
        let Ok(rd) = std::fs::read_dir(dir) else { return };
        let mut entries: Vec<PathBuf> = rd.filter_map(|e| e.ok()).map(|e| e.path()).collect();
        entries.sort();
        for p in entries {
            match p.extension().and_then(|e| e.to_str()).unwrap_or("") {
                "designspace" | "glyphs" | "ufo" | "glyphspackage" => out.push(p),
                _ if p.is_dir() => walk(&p, out),
                _ => {}
            }
        }
    }
    let mut found = Vec::new();
    walk(&dir, &mut found);
    found
        .into_iter()
        .filter_map(|p| p.strip_prefix(&dir).ok().map(|r| format!("hostile:{}", r.to_string_lossy())))
        .collect()
}

/// `<verif>/sources`, found relative to this executable (`<verif>/sim/target/release/fontc-sim`)
pub fn extra_sources_dir() -> Option<PathBuf> {
    if let Ok(home) = std::env::var("VERIF_HOME") {
        let p = PathBuf::from(home).join("sources");
        return p.is_dir().then_some(p);
    }
    let exe = std::env::current_exe().ok()?;
    let p = exe.ancestors().nth(4)?.join("sources");
    p.is_dir().then_some(p)
}

#[derive(Clone, Debug)]
pub struct Group {
    pub property: String,
    pub index: usize,
    /// place in the (shuffled) processing order
    pub position: usize,
    pub seed: u64,
    pub reference: Plan,
    /// how many variations / which recipe
    pub recipe: Recipe,
}

#[derive(Clone, Debug)]
pub enum Recipe {
    /// n variations of everything C01 says must not matter
    C01 { n: usize },
    /// n_rand random/pct schedules + n_victims victim strategies (usize::MAX = full sweep)
    C02 { n_rand: usize, n_victims: usize },
    /// n IR-on runs over build-directory histories, with read-back and eviction
    C14 { n: usize },
    /// n_job plans with a job failure injected, n_bytes plans with stored-byte faults on the source
    C15 { n_job: usize, n_bytes: usize },
}

pub fn option_sets() -> Vec<Opts> {
    let o = |enable: &[&str], disable: &[&str]| Opts {
        enable: enable.iter().map(|s| s.to_string()).collect(),
        disable: disable.iter().map(|s| s.to_string()).collect(),
        ..Default::default()
    };
    vec![
        Opts::default(),
        o(&["flatten"], &[]),
        o(&["decompose"], &[]),
        o(&["decompose_transformed", "keep_direction"], &["production_names"]),
        o(&["propagate_anchors", "erase_open_corners"], &["prefer_simple"]),
        Opts { skip_features: true, ..Default::default() },
        Opts { compile_debg: true, emit_timing: true, ..o(&["flatten"], &["prefer_simple"]) },
        Opts { emit_ir: true, output_in_ir_dir: true, ..Default::default() },
        Opts { emit_ir: true, emit_debug: true, ..o(&["flatten", "decompose_transformed"], &[]) },
    ]
}

const WORKERS: &[usize] = &[1, 2, 3, 4, 8, 0];

fn random_mask(rng: &mut Prng) -> u64 {
    match rng.below(4) {
        0 => 0,
        1 => rng.next() & rng.next(),
        2 => rng.next(),
        _ => u64::MAX,
    }
}

/// The kind of a job: its Debug text without the instance payload, e.g. `Be(GlyfFragment`
fn job_kind(job: &str) -> &str {
    match job.find('(') {
        Some(i) => match job[i + 1..].find('(') {
            Some(j) => &job[..i + 1 + j],
            None => job,
        },
        None => job,
    }
}

/// Pick a job to single out: first a kind, then an instance of it, so that one-of-a-kind
/// jobs (GlyphOrder, KerningLocations, Features, ...) are as likely as the whole glyph crowd.
pub fn pick_victim(rng: &mut Prng, jobs: &[String]) -> Option<String> {
    if jobs.is_empty() {
        return None;
    }
    let mut kinds: Vec<&str> = jobs.iter().map(|j| job_kind(j)).collect();
    kinds.sort();
    kinds.dedup();
    let kind = *rng.pick(&kinds);
    let of_kind: Vec<&String> = jobs.iter().filter(|j| job_kind(j) == kind).collect();
    Some((*rng.pick(&of_kind)).clone())
}

/// Jobs that are the only one of their kind, and all the others
fn unique_and_crowd(jobs: &[String]) -> (Vec<String>, Vec<String>) {
    let mut count: std::collections::BTreeMap<&str, usize> = Default::default();
    for j in jobs {
        *count.entry(job_kind(j)).or_default() += 1;
    }
    let unique = jobs.iter().filter(|j| count[job_kind(j)] == 1).cloned().collect();
    let crowd = jobs.iter().filter(|j| count[job_kind(j)] > 1).cloned().collect();
    (unique, crowd)
}

pub fn random_strategy(rng: &mut Prng, reference: &ExecRecord) -> Strategy {
    let victim = |rng: &mut Prng| pick_victim(rng, &reference.jobs);
    let seed = rng.next();
    let base = Some(if rng.chance(1, 3) { "seq" } else { "rand" }.to_string());
    match rng.below(12) {
        0..=2 => Strategy { name: "rand".into(), seed, victim: None, depth: 0, horizon: 0, base: None, also: vec![] },
        3 | 4 => Strategy {
            name: "pct".into(),
            seed,
            victim: None,
            depth: 1 + rng.below(6),
            horizon: reference.steps.max(100),
            base: None,
            also: vec![],
        },
        5 => Strategy { name: "starve-coord".into(), seed, victim: None, depth: 0, horizon: 0, base, also: vec![] },
        6 => Strategy { name: "eager-coord".into(), seed, victim: None, depth: 0, horizon: 0, base, also: vec![] },
        7 | 8 => Strategy { name: "delay-start".into(), seed, victim: victim(rng), depth: 0, horizon: 0, base, also: vec![] },
        9 => Strategy { name: "delay-done-a".into(), seed, victim: victim(rng), depth: 0, horizon: 0, base, also: vec![] },
        10 => Strategy { name: "delay-done-b".into(), seed, victim: victim(rng), depth: 0, horizon: 0, base, also: vec![] },
        _ => Strategy { name: "rush".into(), seed, victim: victim(rng), depth: 0, horizon: 0, base, also: vec![] },
    }
}

pub fn groups(property: &str, tier: &str, seed: u64) -> Vec<Group> {
    let mut rng = Prng::new(seed).fork(property);
    let corpus = corpus();
    let opts = option_sets();
    let mut out = Vec::new();
    let quick = tier != "thorough";
    match property {
        "C01" => {
            for src in &corpus {
                // default options always, plus a rotating choice of the others
                let n_sets = if quick { 2 } else { 6 };
                let mut chosen = vec![0usize];
                while chosen.len() < n_sets {
                    let k = 1 + rng.below(opts.len() - 1);
                    if !chosen.contains(&k) {
                        chosen.push(k);
                    }
                }
                for k in chosen {
                    let mut reference = Plan::reference("C01", src, opts[k].clone());
                    reference.source_date_epoch = Some(946_684_800 + (rng.next() % 1_500_000_000) as i64);
                    let gseed = rng.next();
                    out.push(Group {
                        property: "C01".into(),
                        index: out.len(),
                    position: 0,
                        seed: gseed,
                        reference,
                        recipe: Recipe::C01 { n: if quick { 8 } else { 64 } },
                    });
                }
            }
        }
        "C02" => {
            for src in &corpus {
                let sets: Vec<usize> = if quick { vec![0, 1 + rng.below(5)] } else { vec![0, 1 + rng.below(6)] };
                for k in sets {
                    let mut reference = Plan::reference("C02", src, opts[k].clone());
                    reference.hash_seed = rng.next();
                    let gseed = rng.next();
                    out.push(Group {
                        property: "C02".into(),
                        index: out.len(),
                    position: 0,
                        seed: gseed,
                        reference,
                        recipe: if quick {
                            Recipe::C02 { n_rand: 3, n_victims: 6 }
                        } else {
                            Recipe::C02 { n_rand: 40, n_victims: usize::MAX }
                        },
                    });
                }
            }
        }
        "C14" => {
            for src in &corpus {
                let k = if rng.chance(1, 2) { 0 } else { 1 + rng.below(6) };
                let mut o = opts[k].clone();
                // the reference is the same build without IR
                o.emit_ir = false;
                o.emit_debug = false;
                o.output_in_ir_dir = false;
                let mut reference = Plan::reference("C14", src, o);
                reference.hash_seed = rng.next();
                let gseed = rng.next();
                out.push(Group {
                    property: "C14".into(),
                    index: out.len(),
                    position: 0,
                    seed: gseed,
                    reference,
                    recipe: Recipe::C14 { n: if quick { 9 } else { 60 } },
                });
            }
        }
        "C15" => {
            for src in hostile_corpus() {
                // as the CLI would run them: default options, nothing injected on top
                let mut reference = Plan::reference("C15", &src, opts[0].clone());
                if src.starts_with("hostile:slow/") {
                    reference.cpu_limit_s = Some(20);
                }
                let gseed = rng.next();
                out.push(Group {
                    property: "C15".into(),
                    index: out.len(),
                    position: 0,
                    seed: gseed,
                    reference,
                    recipe: Recipe::C15 { n_job: 0, n_bytes: 0 },
                });
            }
            for src in &corpus {
                let k = if rng.chance(2, 3) { 0 } else { 1 + rng.below(5) };
                let reference = Plan::reference("C15", src, opts[k].clone());
                let gseed = rng.next();
                out.push(Group {
                    property: "C15".into(),
                    index: out.len(),
                    position: 0,
                    seed: gseed,
                    reference,
                    recipe: if quick { Recipe::C15 { n_job: 5, n_bytes: 9 } } else { Recipe::C15 { n_job: 40, n_bytes: 120 } },
                });
            }
        }
        _ => {}
    }
    // generated sources: richer task graphs, more map entries, naming and kerning-location stress
    let n_gen = match (property, quick) {
        ("C01", true) => 18,
        ("C02", true) => 6,
        ("C14", true) => 12,
        ("C15", true) => 4,
        ("C14", false) => 120,
        (_, false) => 60,
        _ => 0,
    };
    let profiles = crate::generate::profiles();
    for i in 0..n_gen {
        let profile = match property {
            "C14" => ["names", "kern", "names", "mixed", "kern", "composites", "features"][i % 7],
            // C15 judges by a CPU bound: keep its generated sources small
            "C15" => ["names", "kern", "composites", "mixed", "features"][i % 5],
            _ => profiles[i % profiles.len()],
        };
        // generated sources are rich in mixed and nested composites: make sure the component
        // options, which decide what the glyph-order job does with them, all get their turn
        let k = match (property, i % 3) {
            ("C01", 1) | ("C02", 1) => 4,
            ("C01", 2) | ("C02", 2) => 1 + rng.below(6),
            _ => if rng.chance(1, 2) { 0 } else { 1 + rng.below(6) },
        };
        let mut o = opts[k].clone();
        if property == "C14" || property == "C15" {
            o.emit_ir = false;
            o.emit_debug = false;
            o.output_in_ir_dir = false;
        }
        let mut reference = Plan::reference(property, &format!("gen:{profile}"), o);
        reference.gen_seed = Some(rng.next() >> 16);
        reference.hash_seed = rng.next();
        let gseed = rng.next();
        let big = profile == "big";
        let recipe = match (property, quick) {
            ("C01", true) => Recipe::C01 { n: if big { 4 } else { 10 } },
            ("C01", false) => Recipe::C01 { n: if big { 12 } else { 60 } },
            ("C02", true) => Recipe::C02 { n_rand: if big { 2 } else { 5 }, n_victims: if big { 4 } else { 12 } },
            ("C02", false) => Recipe::C02 { n_rand: if big { 6 } else { 40 }, n_victims: if big { 40 } else { usize::MAX } },
            ("C14", true) => Recipe::C14 { n: if big { 3 } else { 8 } },
            ("C14", false) => Recipe::C14 { n: if big { 8 } else { 40 } },
            ("C15", true) => Recipe::C15 { n_job: 6, n_bytes: 0 },
            ("C15", false) => Recipe::C15 { n_job: 30, n_bytes: 0 },
            _ => continue,
        };
        out.push(Group { property: property.into(), index: out.len(),
                    position: 0, seed: gseed, reference, recipe });
    }
    // sources obtained from the corpus by one or two small structural edits (a few lines dropped
    // or duplicated, a collection emptied, a number at a boundary, a token edit): those that
    // still compile are compilable sources like any other, with shapes the corpus does not have
    // (an order list that omits glyphs, an empty-but-present list, a duplicated record)
    let n_edit = match (property, quick) {
        ("C01", true) | ("C14", true) => 60,
        ("C01", false) | ("C14", false) => 600,
        _ => 0,
    };
    let editable: Vec<&String> = corpus.iter().filter(|s| !s.starts_with("extra:")).collect();
    for _ in 0..n_edit {
        if editable.is_empty() {
            break;
        }
        let src = (*rng.pick(&editable)).clone();
        let files: Vec<String> = crate::tree::closure(&src)
            .into_iter()
            .filter(|f| f.ends_with(".plist") || f.ends_with(".glyphs") || f.ends_with(".designspace") || f.ends_with(".glif") || f.ends_with(".fea") || f.ends_with(".glyph"))
            .collect();
        if files.is_empty() {
            continue;
        }
        let mut o = opts[if rng.chance(2, 3) { 0 } else { 1 + rng.below(5) }].clone();
        if property == "C14" {
            o.emit_ir = false;
            o.emit_debug = false;
            o.output_in_ir_dir = false;
        }
        let mut reference = Plan::reference(property, &src, o);
        reference.hash_seed = rng.next();
        for _ in 0..(1 + rng.below(2)) {
            let kind = *rng.pick(&["src-drop-few", "src-drop-few", "src-dup-few", "src-empty-coll", "src-empty-coll", "src-number", "src-tokens"]);
            // the small, list-like files are where an edit most often leaves a valid source
            let small: Vec<&String> = files.iter().filter(|f| !f.ends_with(".glif") && !f.ends_with(".glyph")).collect();
            let target = if !small.is_empty() && rng.chance(3, 4) { (*rng.pick(&small)).clone() } else { rng.pick(&files).clone() };
            reference.faults.push(Fault { kind: kind.to_string(), target: Some(target), nth: 0, arg: (rng.next() >> 1) as i64 });
        }
        let gseed = rng.next();
        let recipe = if property == "C01" { Recipe::C01 { n: if quick { 5 } else { 12 } } } else { Recipe::C14 { n: if quick { 4 } else { 10 } } };
        out.push(Group { property: property.into(), index: out.len(), position: 0, seed: gseed, reference, recipe });
    }
    out
}

fn byte_fault(rng: &mut Prng, files: &[String]) -> Option<Fault> {
    if files.is_empty() {
        return None;
    }
    let kind = *rng.pick(&[
        "src-truncate", "src-truncate", "src-bitrot", "src-bitrot", "src-delete", "src-misdirect", "src-empty",
        "src-dup-lines", "src-drop-lines", "src-drop-lines", "src-number", "src-number", "src-number",
        "src-cycle", "src-cycle", "src-cycle", "src-nest", "src-nest", "src-soup", "src-include", "src-include",
        "src-tokens", "src-tokens", "src-tokens", "src-tokens", "src-long", "src-long", "src-chain",
    ]);
    let prefer: Vec<&String> = match kind {
        "src-cycle" => files
            .iter()
            .filter(|f| f.ends_with(".glyphs") || (f.ends_with(".glif") && rng.chance(1, 1)))
            .collect(),
        "src-include" => files.iter().filter(|f| f.ends_with(".fea") || f.ends_with(".glyphs")).collect(),
        "src-chain" => files.iter().filter(|f| f.ends_with(".glif")).collect(),
        // feature code has the richest grammar: half of the token edits go there
        "src-tokens" if rng.chance(1, 2) => files.iter().filter(|f| f.ends_with(".fea")).collect(),
        "src-tokens" | "src-long" => files
            .iter()
            .filter(|f| f.ends_with(".glyphs") || f.ends_with(".plist") || f.ends_with(".fea") || f.ends_with(".designspace") || f.ends_with(".glif"))
            .collect(),
        "src-nest" | "src-soup" => files
            .iter()
            .filter(|f| f.ends_with(".glyphs") || f.ends_with(".plist") || f.ends_with(".fea") || f.ends_with(".designspace") || f.ends_with(".glif"))
            .collect(),
        _ => files.iter().collect(),
    };
    let pool: Vec<&String> = if prefer.is_empty() { files.iter().collect() } else { prefer };
    let mut target = (*rng.pick(&pool)).clone();
    if kind == "src-delete" && rng.chance(1, 3) {
        // lose a whole directory instead of one file
        if let Some(parent) = std::path::Path::new(&target).parent() {
            let p = parent.to_string_lossy().to_string();
            if !p.is_empty() {
                target = p;
            }
        }
    }
    Some(Fault { kind: kind.to_string(), target: Some(target), nth: 0, arg: (rng.next() >> 1) as i64 })
}

/// The variations of a group, known only once its reference run has been seen
pub fn variations(group: &Group, reference: &ExecRecord) -> Vec<Plan> {
    let mut rng = Prng::new(group.seed);
    let mut out = Vec::new();
    match &group.recipe {
        Recipe::C01 { n } => {
            for _ in 0..*n {
                let mut p = group.reference.clone();
                p.hash_seed = rng.next();
                p.epoch = 631_152_000 + (rng.next() % 3_155_760_000) as i64;
                p.workers = *rng.pick(WORKERS);
                p.strategy = random_strategy(&mut rng, reference);
                p.yield_mask = random_mask(&mut rng);
                out.push(p);
            }
        }
        Recipe::C02 { n_rand, n_victims } => {
            for _ in 0..*n_rand {
                let mut p = group.reference.clone();
                p.workers = *rng.pick(WORKERS);
                p.strategy = random_strategy(&mut rng, reference);
                p.yield_mask = random_mask(&mut rng);
                out.push(p);
            }
            let kinds = ["delay-start", "delay-done-a", "delay-done-b", "rush"];
            if *n_victims == usize::MAX {
                for job in &reference.jobs {
                    for kind in kinds {
                        for w in [*rng.pick(&[2usize, 3, 0])] {
                            let mut p = group.reference.clone();
                            p.workers = w;
                            p.strategy = Strategy {
                                name: kind.into(),
                                seed: rng.next(),
                                victim: Some(job.clone()),
                                depth: 0,
                                horizon: 0,
                                base: Some(if rng.chance(1, 2) { "seq" } else { "rand" }.into()),
                                also: vec![],
                            };
                            p.yield_mask = random_mask(&mut rng);
                            out.push(p);
                        }
                    }
                }
            } else if !reference.jobs.is_empty() {
                for _ in 0..*n_victims {
                    let mut p = group.reference.clone();
                    p.workers = *rng.pick(&[2usize, 3, 0]);
                    p.strategy = Strategy {
                        name: rng.pick(&kinds).to_string(),
                        seed: rng.next(),
                        victim: pick_victim(&mut rng, &reference.jobs),
                        depth: 0,
                        horizon: 0,
                        base: Some(if rng.chance(1, 2) { "seq" } else { "rand" }.into()),
                        also: vec![],
                    };
                    p.yield_mask = random_mask(&mut rng);
                    out.push(p);
                }
            }
            // two singled-out jobs: a one-of-a-kind job is made slow while another job's completion
            // is held back, so that the coordinator hears of the second *while* the first is at work
            let (unique, crowd) = unique_and_crowd(&reference.jobs);
            // a completion message held back until a one-of-a-kind job is in the middle of its
            // writes: the coordinator then hears of the finished job while the other is at work
            // Only a job that replaces values other jobs wrote can pull the rug from under
            // something the coordinator (or a job it then launches) has already looked at.
            let writers: Vec<(&String, u32)> = reference
                .rewriters
                .iter()
                .filter_map(|u| reference.writes_by_job.get(u).map(|w| (u, *w)))
                .filter(|(_, w)| *w > 0)
                .collect();
            if !writers.is_empty() && !crowd.is_empty() {
                let mut holds: Vec<(String, u32, String)> = Vec::new();
                if *n_victims == usize::MAX {
                    for (u, w) in &writers {
                        let mut vs: Vec<&String> = crowd.iter().filter(|v| v != u).collect();
                        while vs.len() > 40 {
                            let i = rng.below(vs.len());
                            vs.swap_remove(i);
                        }
                        for v in vs {
                            holds.push(((*u).clone(), 1 + rng.below(*w as usize) as u32, v.clone()));
                        }
                    }
                } else {
                    for _ in 0..3 {
                        let (u, w) = *rng.pick(&writers);
                        holds.push((u.clone(), 1 + rng.below(w as usize) as u32, rng.pick(&crowd).clone()));
                    }
                }
                for (u, n, v) in holds {
                    let mut p = group.reference.clone();
                    p.workers = *rng.pick(&[2usize, 3, 0]);
                    p.strategy = Strategy {
                        name: "rand".into(),
                        seed: rng.next(),
                        victim: None,
                        depth: 0,
                        horizon: 0,
                        base: None,
                        also: vec![(format!("hold-send-until-write:{u}:{n}"), v)],
                    };
                    p.yield_mask = u64::MAX;
                    out.push(p);
                }
            }
            if !unique.is_empty() && !crowd.is_empty() {
                let pairs = if *n_victims == usize::MAX { unique.len() * 2 } else { 1 };
                for i in 0..pairs {
                    let u = if *n_victims == usize::MAX { unique[i % unique.len()].clone() } else { rng.pick(&unique).clone() };
                    let v = rng.pick(&crowd).clone();
                    let mut p = group.reference.clone();
                    p.workers = *rng.pick(&[2usize, 3, 0]);
                    p.strategy = Strategy {
                        name: "delay-start".into(),
                        seed: rng.next(),
                        victim: Some(u),
                        depth: 0,
                        horizon: 0,
                        base: Some("rand".into()),
                        also: vec![(if rng.chance(2, 3) { "delay-done-b" } else { "delay-done-a" }.to_string(), v)],
                    };
                    // the slow job must be preemptible inside its body
                    p.yield_mask = u64::MAX;
                    out.push(p);
                }
            }
        }
        Recipe::C14 { n } => {
            let corpus = corpus();
            for i in 0..*n {
                let mut p = group.reference.clone();
                p.options.emit_ir = true;
                p.options.output_in_ir_dir = rng.chance(1, 2);
                p.options.emit_debug = rng.chance(1, 4);
                p.readback = true;
                p.hash_seed = rng.next();
                p.workers = *rng.pick(WORKERS);
                p.strategy = random_strategy(&mut rng, reference);
                p.yield_mask = random_mask(&mut rng);
                p.history = match (i, rng.below(6)) {
                    (0, _) => History::Clean,
                    (_, 0) => History::Clean,
                    (_, 1) | (_, 2) => History::SameSource,
                    (_, 3) => History::OtherSource(rng.pick(&corpus).clone()),
                    _ => History::Crashed(rng.below(reference.steps.max(2))),
                };
                // eviction differential on a seeded subset of the items that are only ever get()
                if i % 3 != 0 && !reference.evictable.is_empty() {
                    let all = rng.chance(1, 4);
                    for item in &reference.evictable {
                        if all || rng.chance(1, 4) {
                            p.evict.push(item.clone());
                        }
                    }
                    if p.evict.is_empty() {
                        p.evict.push(rng.pick(&reference.evictable).clone());
                    }
                }
                out.push(p);
            }
        }
        Recipe::C15 { n_job, n_bytes } => {
            if !reference.jobs.is_empty() {
                for _ in 0..*n_job {
                    let mut p = group.reference.clone();
                    p.hash_seed = rng.next();
                    p.workers = *rng.pick(WORKERS);
                    p.strategy = random_strategy(&mut rng, reference);
                    p.yield_mask = random_mask(&mut rng);
                    let kind = if rng.chance(1, 2) { "job-panic" } else { "job-err" };
                    let (target, nth) = if rng.chance(2, 3) {
                        (pick_victim(&mut rng, &reference.jobs), 0)
                    } else {
                        (None, rng.below(reference.jobs.len()))
                    };
                    if rng.chance(1, 6) {
                        // the final step fails instead: moving the font out of the IR directory, or writing it
                        p.options.emit_ir = rng.chance(1, 2);
                        p.options.output_in_ir_dir = false;
                        let errno = *rng.pick(&[28i64, 18, 13, 5, 30]);
                        p.faults.push(Fault { kind: "io-step-err".into(), target: None, nth: 0, arg: errno });
                        out.push(p);
                        continue;
                    }
                    p.faults.push(Fault { kind: kind.into(), target, nth, arg: 0 });
                    if rng.chance(1, 4) {
                        // a second failure somewhere else
                        p.faults.push(Fault {
                            kind: if rng.chance(1, 2) { "job-panic" } else { "job-err" }.into(),
                            target: pick_victim(&mut rng, &reference.jobs),
                            nth: 0,
                            arg: 0,
                        });
                    }
                    out.push(p);
                }
            }
            let files = if *n_bytes > 0 { crate::tree::closure(&group.reference.source) } else { vec![] };
            for _ in 0..*n_bytes {
                let mut p = group.reference.clone();
                p.hash_seed = rng.next();
                p.workers = *rng.pick(WORKERS);
                p.strategy = random_strategy(&mut rng, reference);
                p.yield_mask = random_mask(&mut rng);
                let n = 1 + rng.below(3);
                for _ in 0..n {
                    if let Some(f) = byte_fault(&mut rng, &files) {
                        p.faults.push(f);
                    }
                }
                if p.faults.is_empty() {
                    continue;
                }
                out.push(p);
            }
        }
    }
    out
}

#[allow(dead_code)]
pub fn unused(_: Fault, _: History) {}
