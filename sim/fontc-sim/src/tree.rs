//! The simulated disk the compiler reads its sources from: a private copy of the test
//! corpus on which stored-byte faults are applied before a run and undone after it.

use std::{
    fs,
    path::{Path, PathBuf},
};

use crate::{
    exec::testdata,
    plan::{Fault, Plan, Prng},
};

fn copy_tree(from: &Path, to: &Path) {
    fs::create_dir_all(to).expect("create tree dir");
    let Ok(rd) = fs::read_dir(from) else { return };
    for e in rd.filter_map(|e| e.ok()) {
        let p = e.path();
        let dest = to.join(e.file_name());
        if p.is_dir() {
            copy_tree(&p, &dest);
        } else {
            let _ = fs::copy(&p, &dest);
        }
    }
}

fn list_files(dir: &Path, out: &mut Vec<PathBuf>) {
    let Ok(rd) = fs::read_dir(dir) else { return };
    let mut entries: Vec<PathBuf> = rd.filter_map(|e| e.ok()).map(|e| e.path()).collect();
    entries.sort();
    for p in entries {
        if p.is_dir() {
            list_files(&p, out);
        } else {
            out.push(p);
        }
    }
}

fn normalize(p: &Path) -> PathBuf {
    let mut out = PathBuf::new();
    for c in p.components() {
        match c {
            std::path::Component::ParentDir => {
                out.pop();
            }
            std::path::Component::CurDir => {}
            other => out.push(other.as_os_str()),
        }
    }
    out
}

/// The files a source consists of, relative to the corpus root, sorted.
pub fn closure(source_rel: &str) -> Vec<String> {
    if source_rel.starts_with('/') || source_rel.starts_with("gen:") || source_rel.starts_with("extra:") || source_rel.starts_with("hostile:") {
        // not part of the corpus tree that gets copied and corrupted
        return Vec::new();
    }
    let root = testdata();
    let src = root.join(source_rel);
    let mut files = Vec::new();
    if src.is_dir() {
        list_files(&src, &mut files);
    } else {
        files.push(src.clone());
        if source_rel.ends_with(".designspace") {
            if let Ok(text) = fs::read_to_string(&src) {
                let base = src.parent().unwrap_or(root);
                let mut dirs = Vec::new();
                for part in text.split("filename=\"").skip(1) {
                    if let Some(end) = part.find('"') {
                        let d = normalize(&base.join(&part[..end]));
                        if d.starts_with(root) && !dirs.contains(&d) {
                            dirs.push(d);
                        }
                    }
                }
                for d in dirs {
                    if d.is_dir() {
                        list_files(&d, &mut files);
                    }
                }
            }
        }
    }
    let mut out: Vec<String> = files
        .into_iter()
        .filter_map(|p| p.strip_prefix(root).ok().map(|r| r.to_string_lossy().to_string()))
        .collect();
    out.sort();
    out.dedup();
    out
}

pub struct Tree {
    pub root: PathBuf,
    touched: Vec<String>,
}

impl Tree {
    /// A pristine private copy of the corpus at `root` (made once, then reused)
    pub fn ensure(root: &Path) -> Tree {
        if !root.join(".complete").exists() {
            let _ = fs::remove_dir_all(root);
            copy_tree(testdata(), root);
            let _ = fs::write(root.join(".complete"), b"1");
        }
        Tree { root: root.to_path_buf(), touched: Vec::new() }
    }

    /// Apply the stored-byte faults of `plan`; returns a description of each applied one
    pub fn apply(&mut self, plan: &Plan) -> Vec<String> {
        let mut applied = Vec::new();
        for f in &plan.faults {
            if !f.kind.starts_with("src-") {
                continue;
            }
            let Some(target) = f.target.clone() else { continue };
            let mut created = Vec::new();
            if let Some(desc) = apply_one(&self.root, f, &target, &mut created) {
                applied.push(desc);
            }
            self.touched.append(&mut created);
            self.touched.push(target.clone());
            if f.kind == "src-cycle" && target.ends_with(".glif") {
                // closing a two-glyph cycle edits a sibling file too
                if let Some(dir) = Path::new(&target).parent() {
                    self.touched.push(dir.to_string_lossy().to_string());
                }
            }
        }
        applied
    }

    /// Undo every fault applied since the last restore
    pub fn restore(&mut self) {
        for rel in self.touched.drain(..) {
            let pristine = testdata().join(&rel);
            let mine = self.root.join(&rel);
            if pristine.is_dir() {
                let _ = fs::remove_dir_all(&mine);
                copy_tree(&pristine, &mine);
            } else if pristine.is_file() {
                if let Some(parent) = mine.parent() {
                    let _ = fs::create_dir_all(parent);
                }
                if mine.is_dir() {
                    let _ = fs::remove_dir_all(&mine);
                }
                let _ = fs::copy(&pristine, &mine);
            } else {
                let _ = fs::remove_file(&mine);
            }
        }
    }
}

const BOUNDARY_NUMBERS: &[&str] = &[
    "32767", "-32768", "32768", "-32769", "65535", "65536", "-65536", "2147483648", "-2147483649",
    "1e308", "-1e308", "1e-320", "NaN", "inf", "-inf", "99999999999999999999", "0", "-0", "0.5", "1e9", "16384", "-16385", "3.999", "-4.001",
];

fn find_numbers(text: &[u8]) -> Vec<(usize, usize)> {
    let mut out = Vec::new();
    let mut i = 0;
    while i < text.len() {
        let c = text[i];
        let starts = c.is_ascii_digit() || (c == b'-' && i + 1 < text.len() && text[i + 1].is_ascii_digit());
        // a number may follow an underscore: anchor names such as top_2 carry an index
        let prev_ok = i == 0 || !(text[i - 1].is_ascii_alphanumeric() || text[i - 1] == b'.');
        if starts && prev_ok {
            let start = i;
            i += 1;
            while i < text.len() && (text[i].is_ascii_digit() || text[i] == b'.') {
                i += 1;
            }
            if i >= text.len() || !(text[i].is_ascii_alphabetic() || text[i] == b'_') {
                out.push((start, i));
            }
        } else {
            i += 1;
        }
    }
    out
}

fn apply_one(root: &Path, f: &Fault, target: &str, created: &mut Vec<String>) -> Option<String> {
    let path = root.join(target);
    let mut rng = Prng::new(f.arg as u64);
    match f.kind.as_str() {
        "src-delete" => {
            if path.is_dir() {
                fs::remove_dir_all(&path).ok()?;
            } else {
                fs::remove_file(&path).ok()?;
            }
            return Some(format!("deleted {target}"));
        }
        "src-chain" => {
            // the simulator runs one coroutine per job and counts scheduling steps: a thousand
            // extra glyphs is about a million steps, well inside the step bound; much longer
            // chains would exhaust the bound (a false 'hang') before they exhaust fontc; with the
            // decompose option the work per chain is cubic (1000 glyphs: more than a minute of
            // CPU, finite and not what the property forbids), hence 400 at most
            let n = if f.nth > 0 { f.nth } else { *rng.pick(&[40usize, 150, 400]) };
            return add_component_chain(root, target, n, created);
        }
        _ => {}
    }
    // include faults go to the feature file of the UFO the target belongs to, creating it if needed
    let (path, target): (PathBuf, String) = if f.kind == "src-include" && !(target.ends_with(".fea") || target.ends_with(".glyphs")) {
        let ufo = Path::new(target).ancestors().find(|a| a.extension().and_then(|e| e.to_str()) == Some("ufo"))?;
        let rel = format!("{}/features.fea", ufo.to_string_lossy());
        let p = root.join(&rel);
        if !p.exists() {
            fs::write(&p, b"").ok()?;
        }
        created.push(rel.clone());
        (p, rel)
    } else {
        (path, target.to_string())
    };
    let target = target.as_str();
    let data = fs::read(&path).ok()?;
    let (new, desc): (Vec<u8>, String) = match f.kind.as_str() {
        "src-truncate" => {
            let at = if data.is_empty() { 0 } else { rng.below(data.len()) };
            (data[..at].to_vec(), format!("truncated {target} at {at}/{}", data.len()))
        }
        "src-empty" => (Vec::new(), format!("emptied {target}")),
        "src-bitrot" => {
            let mut d = data.clone();
            let n = 1 + rng.below(8);
            if d.is_empty() {
                return None;
            }
            let mut at = Vec::new();
            for _ in 0..n {
                let i = rng.below(d.len());
                d[i] = if rng.chance(1, 2) { (rng.next() & 0xff) as u8 } else { d[i] ^ (1 << rng.below(8)) };
                at.push(i);
            }
            (d, format!("overwrote {n} bytes of {target} at {at:?}"))
        }
        "src-misdirect" => {
            // arg2: which other file; chosen by the planner and stored after a '|' in target? keep simple:
            // pick another file of the same directory tree by the fault's own PRNG
            let dir = path.parent()?;
            let mut sibs = Vec::new();
            list_files(dir, &mut sibs);
            sibs.retain(|p| p != &path);
            if sibs.is_empty() {
                return None;
            }
            sibs.sort();
            let other = &sibs[rng.below(sibs.len())];
            let d = fs::read(other).ok()?;
            (d, format!("{target} now holds the bytes of {}", other.file_name()?.to_string_lossy()))
        }
        "src-empty-coll" => {
            // an innermost collection (XML <array>/<dict>, OpenStep (...) / {...}) loses its members:
            // "empty" and "absent" are different values, and readers tend to confuse them
            let text = String::from_utf8_lossy(&data).to_string();
            let xml = text.trim_start().starts_with('<');
            let mut spans: Vec<(usize, usize, &str)> = Vec::new();
            if xml {
                for (open, close, empty) in [("<array>", "</array>", "<array/>"), ("<dict>", "</dict>", "<dict/>")] {
                    let mut from = 0;
                    while let Some(i) = text[from..].find(open) {
                        let start = from + i;
                        let inner = start + open.len();
                        if let Some(j) = text[inner..].find(close) {
                            let body = &text[inner..inner + j];
                            if !body.contains("<array>") && !body.contains("<dict>") && !body.trim().is_empty() {
                                spans.push((start, inner + j + close.len(), empty));
                            }
                        }
                        from = inner;
                    }
                }
            } else {
                for (open, close, empty) in [('(', ')', "()"), ('{', '}', "{}")] {
                    let mut stack: Vec<usize> = Vec::new();
                    let mut nested_since: Vec<bool> = Vec::new();
                    let mut in_str = false;
                    for (i, c) in text.char_indices() {
                        if c == '"' {
                            in_str = !in_str;
                        }
                        if in_str {
                            continue;
                        }
                        if c == '(' || c == '{' {
                            for n in nested_since.iter_mut() {
                                *n = true;
                            }
                            if c == open {
                                stack.push(i);
                                nested_since.push(false);
                            }
                        } else if c == close {
                            if let (Some(start), Some(nested)) = (stack.pop(), nested_since.pop()) {
                                if !nested && !text[start + 1..i].trim().is_empty() {
                                    spans.push((start, i + 1, empty));
                                }
                            }
                        }
                    }
                }
            }
            if spans.is_empty() {
                return None;
            }
            spans.sort();
            let (a, b, empty) = spans[rng.below(spans.len())];
            let new = format!("{}{}{}", &text[..a], empty, &text[b..]);
            (new.into_bytes(), format!("collection at {a}..{b} of {target} emptied ({})", crate::oracle::trunc(&text[a..b].replace('\n', " "), 60)))
        }
        "src-dup-few" | "src-drop-few" => {
            let lines: Vec<&[u8]> = data.split_inclusive(|b| *b == b'\n').collect();
            if lines.is_empty() {
                return None;
            }
            let a = rng.below(lines.len());
            let len = 1 + rng.below((lines.len() - a).min(3));
            let mut d = Vec::new();
            for (i, l) in lines.iter().enumerate() {
                if f.kind == "src-drop-few" && i >= a && i < a + len {
                    continue;
                }
                d.extend_from_slice(l);
                if f.kind == "src-dup-few" && i + 1 == a + len {
                    for l2 in &lines[a..a + len] {
                        d.extend_from_slice(l2);
                    }
                }
            }
            (d, format!("{} lines {a}..{} of {target}", if f.kind == "src-dup-few" { "duplicated" } else { "dropped" }, a + len))
        }
        "src-dup-lines" | "src-drop-lines" => {
            let lines: Vec<&[u8]> = data.split_inclusive(|b| *b == b'\n').collect();
            if lines.is_empty() {
                return None;
            }
            let a = rng.below(lines.len());
            let len = 1 + rng.below((lines.len() - a).min(40));
            let mut d = Vec::new();
            for (i, l) in lines.iter().enumerate() {
                if f.kind == "src-drop-lines" && i >= a && i < a + len {
                    continue;
                }
                d.extend_from_slice(l);
                if f.kind == "src-dup-lines" && i + 1 == a + len {
                    for l2 in &lines[a..a + len] {
                        d.extend_from_slice(l2);
                    }
                }
            }
            (d, format!("{} lines {a}..{} of {target}", if f.kind == "src-dup-lines" { "duplicated" } else { "dropped" }, a + len))
        }
        "src-number" => {
            let nums = find_numbers(&data);
            if nums.is_empty() {
                return None;
            }
            let (s, e) = nums[rng.below(nums.len())];
            let v = *rng.pick(BOUNDARY_NUMBERS);
            let mut d = data[..s].to_vec();
            d.extend_from_slice(v.as_bytes());
            d.extend_from_slice(&data[e..]);
            (d, format!("number {:?} at {s} of {target} became {v}", String::from_utf8_lossy(&data[s..e])))
        }
        "src-nest" => {
            // deep nesting: a run of openers (and sometimes matching closers) at a token boundary
            let text = String::from_utf8_lossy(&data).to_string();
            let (open, close) = if target.ends_with(".glyphs") || target.ends_with(".plist") && !text.trim_start().starts_with("<?xml") {
                *rng.pick(&[("(", ")"), ("{a=", ";}"), ("(", "")])
            } else if target.ends_with(".fea") {
                *rng.pick(&[("[", "]"), ("lookup a {", "} a;"), ("(", ")")])
            } else {
                *rng.pick(&[("<array>", "</array>"), ("<dict><key>a</key>", "</dict>"), ("<a>", "</a>"), ("<array>", "")])
            };
            let depth = *rng.pick(&[200usize, 2_000, 20_000, 300_000]);
            let boundaries: Vec<usize> = text
                .char_indices()
                .filter(|(_, c)| matches!(c, '=' | '>' | '(' | ',' | ';' | '\n'))
                .map(|(i, c)| i + c.len_utf8())
                .collect();
            let at = if boundaries.is_empty() { text.len() } else { boundaries[rng.below(boundaries.len())] };
            let mut d = text[..at].as_bytes().to_vec();
            d.extend(open.repeat(depth).as_bytes());
            d.extend(close.repeat(depth).as_bytes());
            d.extend_from_slice(text[at..].as_bytes());
            (d, format!("{depth} nested {open:?} inserted at {at} of {target}"))
        }
        "src-soup" => {
            // the file's own tokens, shuffled
            let text = String::from_utf8_lossy(&data).to_string();
            let mut toks: Vec<&str> = text.split_inclusive(|c: char| c.is_whitespace() || "(){}<>;=,\"".contains(c)).collect();
            for i in (1..toks.len()).rev() {
                let j = rng.below(i + 1);
                toks.swap(i, j);
            }
            // keep a prefix so that the right parser is still chosen
            let keep = rng.below(text.len().min(200) + 1);
            let mut cut = keep;
            while !text.is_char_boundary(cut) {
                cut -= 1;
            }
            let mut d = text[..cut].as_bytes().to_vec();
            d.extend(toks.concat().as_bytes());
            (d, format!("{target} turned into token soup after byte {cut}"))
        }
        "src-cycle" => {
            let text = String::from_utf8_lossy(&data).to_string();
            if target.ends_with(".glif") {
                // find this glyph's name and make one of its components (or a new one) refer to itself,
                // or close a two-glyph cycle through the first component's base
                let name = text.split("<glyph name=\"").nth(1).and_then(|s| s.split('"').next())?.to_string();
                let own = format!("<component base=\"{name}\"/>");
                let new = if let Some(i) = text.find("<component base=\"") {
                    if rng.chance(1, 2) {
                        // retarget the existing reference
                        let start = i + "<component base=\"".len();
                        let end = start + text[start..].find('"')?;
                        format!("{}{}{}", &text[..start], name, &text[end..])
                    } else {
                        // two-cycle: make the referenced glyph include us
                        let start = i + "<component base=\"".len();
                        let end = start + text[start..].find('"')?;
                        let other = text[start..end].to_string();
                        let dir = path.parent()?;
                        let mut sibs = Vec::new();
                        list_files(dir, &mut sibs);
                        for s in sibs {
                            if s.extension().and_then(|e| e.to_str()) != Some("glif") {
                                continue;
                            }
                            let t = fs::read_to_string(&s).ok()?;
                            if t.contains(&format!("<glyph name=\"{other}\"")) {
                                let patched = insert_component(&t, &name)?;
                                fs::write(&s, patched).ok()?;
                                // the planner lists only `target`; remember the sibling through the tree's touched list
                                return Some(format!("cycle {name} -> {other} -> {name} ({} edited)", s.file_name()?.to_string_lossy()));
                            }
                        }
                        return None;
                    }
                } else {
                    insert_component(&text, &name)?
                };
                let _ = own;
                (new.into_bytes(), format!("{name} made a component of itself in {target}"))
            } else {
                // Glyphs source: retarget a `ref = X;` to the enclosing glyph
                let refs: Vec<usize> = text.match_indices("ref = ").map(|(i, _)| i).collect();
                if refs.is_empty() {
                    return None;
                }
                let at = refs[rng.below(refs.len())];
                let before = &text[..at];
                let gi = before.rfind("glyphname = ")?;
                let name_start = gi + "glyphname = ".len();
                let name_end = name_start + text[name_start..].find(';')?;
                let name = text[name_start..name_end].to_string();
                let val_start = at + "ref = ".len();
                let val_end = val_start + text[val_start..].find(';')?;
                let new = format!("{}{}{}", &text[..val_start], name, &text[val_end..]);
                (new.into_bytes(), format!("component ref at {at} of {target} now points at its own glyph {name}"))
            }
        }
        "src-include" => {
            // grow the include graph: a new file next to the target that includes itself, a
            // partner, a long chain, something missing, or the root again
            let text = String::from_utf8_lossy(&data).to_string();
            let dir_rel = Path::new(target).parent().map(|p| p.to_string_lossy().to_string()).unwrap_or_default();
            let dir = path.parent()?;
            let mut new_file = |name: &str, body: String| {
                let _ = fs::write(dir.join(name), body);
                created.push(if dir_rel.is_empty() { name.to_string() } else { format!("{dir_rel}/{name}") });
            };
            let own = path.file_name()?.to_string_lossy().to_string();
            let (stmt, what): (String, String) = match rng.below(7) {
                0 => {
                    new_file("verif_inc.fea", "include(verif_inc.fea);\n".into());
                    ("include(verif_inc.fea);".into(), "an included file that includes itself".into())
                }
                1 => {
                    new_file("verif_inc_a.fea", "include(verif_inc_b.fea);\n".into());
                    new_file("verif_inc_b.fea", "include(verif_inc_a.fea);\n".into());
                    ("include(verif_inc_a.fea);".into(), "two included files that include each other".into())
                }
                2 => {
                    let n = *rng.pick(&[10usize, 60, 300]);
                    for i in 0..n {
                        let body = if i + 1 < n { format!("include(verif_chain_{}.fea);\n", i + 1) } else { "# end\n".to_string() };
                        new_file(&format!("verif_chain_{i}.fea"), body);
                    }
                    ("include(verif_chain_0.fea);".into(), format!("a chain of {n} includes"))
                }
                3 => ("include(verif_missing.fea);".into(), "an include of a file that does not exist".into()),
                4 => (format!("include({own});"), "the root feature file includes itself".into()),
                5 => {
                    new_file("verif_inc.fea", format!("include(../{}/verif_inc.fea);\n", dir.file_name().map(|d| d.to_string_lossy().to_string()).unwrap_or_default()));
                    ("include(verif_inc.fea);".into(), "an included file that includes itself through a different spelling of its path".into())
                }
                _ => ("include(.);".into(), "an include of a directory".into()),
            };
            let new = if target.ends_with(".glyphs") {
                // feature code lives in strings inside the Glyphs file
                let at = text.find("code = \"")? + "code = \"".len();
                format!("{}{}\n{}", &text[..at], stmt, &text[at..])
            } else {
                format!("{stmt}\n{text}")
            };
            (new.into_bytes(), format!("{what} ({stmt} added to {target})"))
        }
        "src-tokens" => {
            let text = String::from_utf8_lossy(&data).to_string();
            let words = words_for(target, &text);
            // a sibling of the same kind to splice from
            let donor = path.parent().and_then(|dir| {
                let mut sibs = Vec::new();
                list_files(dir, &mut sibs);
                sibs.retain(|p| p != &path && p.extension() == path.extension());
                sibs.sort();
                if sibs.is_empty() { None } else { fs::read(&sibs[rng.below(sibs.len())]).ok() }
            });
            let donor = donor.map(|d| String::from_utf8_lossy(&d).to_string());
            let (new, log) = mutate_tokens(&mut rng, &text, words, donor.as_deref());
            (new.into_bytes(), format!("token edits {} in {target}", log.join(" ")))
        }
        "src-long" => {
            let text = String::from_utf8_lossy(&data).to_string();
            let spans = string_spans(&text);
            if spans.is_empty() {
                return None;
            }
            let (s, e) = spans[rng.below(spans.len())];
            let len = *rng.pick(&[64usize, 256, 300, 4000, 20_000, 70_000]);
            let unit = if text[s..e].trim().is_empty() { "a" } else { text[s..e].trim() };
            let mut long = unit.repeat(len / unit.len().max(1) + 1);
            let mut cut = len.min(long.len());
            while !long.is_char_boundary(cut) {
                cut -= 1;
            }
            long.truncate(cut);
            let new = format!("{}{}{}", &text[..s], long, &text[e..]);
            (new.into_bytes(), format!("string {:?} at {s} of {target} grown to {len} bytes", crate::oracle::trunc(&text[s..e], 40)))
        }
        _ => return None,
    };
    fs::write(&path, new).ok()?;
    Some(desc)
}

fn insert_component(glif: &str, base: &str) -> Option<String> {
    let comp = format!("<component base=\"{base}\"/>");
    if let Some(i) = glif.find("<outline>") {
        let at = i + "<outline>".len();
        Some(format!("{}{}{}", &glif[..at], comp, &glif[at..]))
    } else if let Some(i) = glif.find("<outline/>") {
        Some(format!("{}<outline>{}</outline>{}", &glif[..i], comp, &glif[i + "<outline/>".len()..]))
    } else {
        let i = glif.rfind("</glyph>")?;
        Some(format!("{}<outline>{}</outline>{}", &glif[..i], comp, &glif[i..]))
    }
}

pub const BYTE_FAULT_KINDS: &[&str] = &[
    "src-truncate",
    "src-bitrot",
    "src-delete",
    "src-misdirect",
    "src-empty",
    "src-dup-lines",
    "src-drop-lines",
    "src-number",
    "src-cycle",
    "src-nest",
    "src-soup",
    "src-include",
    "src-tokens",
    "src-long",
    "src-chain",
    "src-empty-coll",
    "src-dup-few",
    "src-drop-few",
];

// ---- token-level mutation, long strings, deep component chains ----

const FEA_WORDS: &[&str] = &[
    "[", "]", "{", "}", "(", ")", "<", ">", "'", ";", "-", "@", "\\", "#", "\"", "99999999999999999999", "-32769", "65536", "0",
    "by", "from", "sub", "pos", "lookup", "feature", "include(", "NULL", "enum", "ignore", "markClass", "mark", "base", "ligature",
    "cursive", "anchor", "device", "useExtension", "table", "name", "script", "language", "languagesystem", "subtable", "anon",
    "conditionset", "variation", "contourpoint", "ligComponent", "rsub", "lookupflag", "MarkAttachmentType", "UseMarkFilteringSet",
    "parameters", "featureNames", "cvParameters", "sizemenuname", "valueRecordDef", "anchorDef", "(wght=1:1)", "$[", "${", "a-z",
    "\\1-\\999", ":", "=", ",", "wght", "abcde",
];
const OPENSTEP_WORDS: &[&str] = &[
    "(", ")", "{", "}", ";", "=", ",", "\"", "0", "-1", "99999999999999999999", "1e308", "nan", "inf", "(0,0)", "{0, 0}", "ref", "nodes",
    "layers", "glyphname", "unicode", "shapes", "components", "anchors", "name", "pos", "\\", "/*", "*/", "//", "<", ">", "1", "65536",
];
const XML_WORDS: &[&str] = &[
    "<", ">", "</", "/>", "\"", "=", "&", "&amp;", "&#0;", "<array>", "</array>", "<dict>", "</dict>", "<key>", "</key>", "<string>", "</string>",
    "<integer>", "</integer>", "<real>", "</real>", "<true/>", "<false/>", "x", "0", "-0", "99999999999999999999", "1e308", "NaN", "<!--", "-->",
    "<![CDATA[", "]]>", "<?", "?>", "<component base=\"a\"/>", "<contour>", "</contour>", "<point x=\"0\" y=\"0\"/>", "<outline>", "</outline>",
    "<anchor name=\"top_1\" x=\"0\" y=\"0\"/>", "<unicode hex=\"0041\"/>", "<advance width=\"1e308\"/>",
];

fn words_for(target: &str, text: &str) -> &'static [&'static str] {
    if target.ends_with(".fea") {
        FEA_WORDS
    } else if text.trim_start().starts_with('<') {
        XML_WORDS
    } else {
        OPENSTEP_WORDS
    }
}

/// whitespace runs, words (`[A-Za-z_@\\.][\w.-]*`), integers, and every other char alone
fn tokens(text: &str) -> Vec<&str> {
    let b = text.as_bytes();
    let mut out = Vec::new();
    let mut i = 0;
    let word_start = |c: u8| c.is_ascii_alphabetic() || matches!(c, b'_' | b'@' | b'\\' | b'.');
    let word_more = |c: u8| c.is_ascii_alphanumeric() || matches!(c, b'_' | b'.' | b'-');
    while i < b.len() {
        let start = i;
        let c = b[i];
        if c.is_ascii_whitespace() {
            while i < b.len() && b[i].is_ascii_whitespace() {
                i += 1;
            }
        } else if word_start(c) {
            i += 1;
            while i < b.len() && word_more(b[i]) {
                i += 1;
            }
        } else if c.is_ascii_digit() || (c == b'-' && i + 1 < b.len() && b[i + 1].is_ascii_digit()) {
            i += 1;
            while i < b.len() && b[i].is_ascii_digit() {
                i += 1;
            }
        } else {
            i += 1;
            while i < b.len() && !text.is_char_boundary(i) {
                i += 1;
            }
        }
        out.push(&text[start..i]);
    }
    out
}

/// A few token-level edits: delete, insert, replace, swap, repeat a run, drop a run, grow a
/// token, splice from a sibling file, cut
fn mutate_tokens(rng: &mut Prng, text: &str, words: &[&str], donor: Option<&str>) -> (String, Vec<String>) {
    let mut t: Vec<String> = tokens(text).into_iter().map(|s| s.to_string()).collect();
    let mut log = Vec::new();
    let rounds = *rng.pick(&[1usize, 1, 2, 3, 5, 8]);
    for _ in 0..rounds {
        if t.is_empty() {
            t.push(";".into());
        }
        let i = rng.below(t.len());
        match rng.below(9) {
            0 => {
                log.push(format!("del@{i}"));
                t.remove(i);
            }
            1 => {
                let w = *rng.pick(words);
                log.push(format!("ins@{i}:{w}"));
                t.insert(i, w.to_string());
            }
            2 => {
                let w = *rng.pick(words);
                log.push(format!("set@{i}:{w}"));
                t[i] = w.to_string();
            }
            3 => {
                let j = rng.below(t.len());
                log.push(format!("swap@{i},{j}"));
                t.swap(i, j);
            }
            4 => {
                let j = (i + 1 + rng.below(11)).min(t.len());
                let times = *rng.pick(&[2usize, 3, 50, 1000, 12000]);
                // keep the result under a few MB
                let times = times.min(1 + 3_000_000 / t[i..j].iter().map(|s| s.len()).sum::<usize>().max(1));
                log.push(format!("rep@{i}..{j}x{times}"));
                let run: Vec<String> = t[i..j].to_vec();
                let mut grown = Vec::with_capacity(run.len() * times);
                for _ in 0..times {
                    grown.extend(run.iter().cloned());
                }
                t.splice(i..i, grown);
            }
            5 => {
                let j = (i + 1 + rng.below(29)).min(t.len());
                log.push(format!("drop@{i}..{j}"));
                t.drain(i..j);
            }
            6 => {
                let times = *rng.pick(&[2usize, 100, 5000]);
                let times = times.min(1 + 1_000_000 / t[i].len().max(1));
                log.push(format!("grow@{i}x{times}"));
                t[i] = t[i].repeat(times);
            }
            7 => {
                if let Some(d) = donor {
                    let o = tokens(d);
                    if !o.is_empty() {
                        let k = rng.below(o.len());
                        let n = (1 + rng.below(39)).min(o.len() - k);
                        log.push(format!("splice@{i}+{n}"));
                        t.splice(i..i, o[k..k + n].iter().map(|s| s.to_string()));
                    }
                }
            }
            _ => {
                log.push(format!("cut@{i}"));
                t.truncate(i);
            }
        }
    }
    (t.concat(), log)
}

/// Spans that hold a name or a string: XML text content and attribute values, quoted strings,
/// and bare words after `=` in the OpenStep format
fn string_spans(text: &str) -> Vec<(usize, usize)> {
    let b = text.as_bytes();
    let mut out = Vec::new();
    let mut i = 0;
    while i < b.len() {
        match b[i] {
            b'"' => {
                let start = i + 1;
                let mut j = start;
                while j < b.len() && b[j] != b'"' && b[j] != b'\n' {
                    j += if b[j] == b'\\' { 2 } else { 1 };
                }
                let j = j.min(b.len());
                if j > start && text.is_char_boundary(start) && text.is_char_boundary(j) {
                    out.push((start, j));
                }
                i = j + 1;
            }
            b'>' => {
                let start = i + 1;
                let mut j = start;
                while j < b.len() && b[j] != b'<' {
                    j += 1;
                }
                if j > start && !text[start..j].trim().is_empty() && text.is_char_boundary(j) {
                    out.push((start, j));
                }
                i = j.max(i + 1);
            }
            _ => i += 1,
        }
    }
    out
}

/// `n` new glyphs in the glyph directory of `glif`, each a composite of the next, the last one
/// of the target glyph; registered in contents.plist
fn add_component_chain(root: &Path, target: &str, n: usize, created: &mut Vec<String>) -> Option<String> {
    let glif_path = root.join(target);
    let text = fs::read_to_string(&glif_path).ok()?;
    let leaf = text.split("<glyph name=\"").nth(1).and_then(|s| s.split('"').next())?.to_string();
    let dir = glif_path.parent()?;
    let dir_rel = Path::new(target).parent()?.to_string_lossy().to_string();
    let contents_path = dir.join("contents.plist");
    let contents = fs::read_to_string(&contents_path).ok()?;
    let at = contents.rfind("</dict>")?;
    let mut entries = String::new();
    for i in 0..n {
        let name = format!("verifchain{i:05}");
        let file = format!("verifchain{i:05}.glif");
        let next = if i + 1 < n { format!("verifchain{:05}", i + 1) } else { leaf.clone() };
        let uni = if i == 0 { "<unicode hex=\"E000\"/>" } else { "" };
        let body = format!(
            "<?xml version=\"1.0\" encoding=\"UTF-8\"?>\n<glyph name=\"{name}\" format=\"2\"><advance width=\"500\"/>{uni}<outline><component base=\"{next}\" xOffset=\"1\"/></outline></glyph>\n"
        );
        fs::write(dir.join(&file), body).ok()?;
        created.push(format!("{dir_rel}/{file}"));
        entries.push_str(&format!("<key>{name}</key><string>{file}</string>\n"));
    }
    let new_contents = format!("{}{}{}", &contents[..at], entries, &contents[at..]);
    fs::write(&contents_path, new_contents).ok()?;
    created.push(format!("{dir_rel}/contents.plist"));
    Some(format!("{n} new glyphs in {dir_rel}, each a component of the next, ending in {leaf}"))
}
