//! fontc-sim: deterministic simulation of the fontc compiler with fault injection.

mod child;
mod exec;
mod generate;
mod oracle;
mod order;
mod plan;
mod sha256;
mod shims;
mod sim;
mod storage;
mod tree;
mod workload;

use std::{io::Write, path::PathBuf};

use exec::ExecRecord;
use oracle::Violation;
use plan::Plan;
use serde_json::json;

fn scratch_root() -> PathBuf {
    if let Ok(p) = std::env::var("VERIF_SCRATCH") {
        return PathBuf::from(p);
    }
    let shm = PathBuf::from("/dev/shm");
    if shm.is_dir() { shm.join("fontc-verif") } else { std::env::temp_dir().join("fontc-verif") }
}

fn arg_value(args: &[String], name: &str) -> Option<String> {
    args.iter().position(|a| a == name).and_then(|i| args.get(i + 1).cloned())
}

fn emit(v: serde_json::Value) {
    let mut out = std::io::stdout().lock();
    let _ = writeln!(out, "{v}");
}

/// Judge a variation against its group's reference, for the property the check is about
fn judge(property: &str, plan: &Plan, reference: &ExecRecord, rec: &ExecRecord) -> Vec<Violation> {
    let mut v = Vec::new();
    if rec.outcome.class == "harness" {
        return v;
    }
    match property {
        "C01" => {
            v.extend(oracle::c01(reference, rec));
        }
        "C02" => {
            // a failure in the task graph's own words is a violation whatever the reference
            // run did: an invalid source is supposed to fail with a diagnostic of its own
            v.extend(oracle::c02_single(true, rec));
            v.extend(oracle::c02_producers(reference, rec));
            // bytes that depend on nothing but the schedule are C01's business
            v.extend(oracle::c01(reference, rec));
        }
        "C14" => {
            v.extend(oracle::c14(reference, rec));
        }
        "C15" => {
            v.extend(oracle::c15(plan, rec));
        }
        _ => {}
    }
    v
}

fn has_byte_faults(plan: &Plan) -> bool {
    plan.faults.iter().any(|f| f.kind.starts_with("src-"))
}

/// Run a plan in a forked child, preparing (and afterwards repairing) the private source tree
/// when the plan carries stored-byte faults.
fn run_plan(
    plan: &Plan,
    sandbox: &std::path::Path,
    full: bool,
    verbose: bool,
    judge_fn: &dyn Fn(&ExecRecord) -> Vec<Violation>,
) -> (child::ChildResult, Vec<String>, Vec<String>) {
    // generated sources are written into the sandbox they are compiled from
    if let Some(profile) = plan.source.strip_prefix("gen:") {
        let dir = sandbox.join("gen");
        if !dir.exists() {
            generate::materialize(plan.gen_seed.unwrap_or(0), profile, &dir);
        }
    }
    // what an earlier invocation left in the build directory
    let mut prepared = Vec::new();
    let prep = match &plan.history {
        plan::History::Clean => None,
        plan::History::SameSource => {
            let mut p = plan.clone();
            p.history = plan::History::Clean;
            p.evict.clear();
            p.readback = false;
            p.faults.clear();
            p.strategy = plan::Strategy::seq();
            p.workers = 1;
            Some(p)
        }
        plan::History::OtherSource(src) => {
            let mut p = Plan::reference(&plan.property, src, plan.options.clone());
            p.options.emit_ir = true;
            Some(p)
        }
        plan::History::Crashed(at) => {
            let mut p = plan.clone();
            p.history = plan::History::Clean;
            p.evict.clear();
            p.readback = false;
            p.crash_at = Some(*at);
            Some(p)
        }
    };
    if let Some(p) = prep {
        let r = child::run_forked(&p, sandbox, false, false, &|_| vec![]);
        prepared.push(format!("history {:?}: previous run ended {}", plan.history, r.rec.outcome.class));
    }
    if !has_byte_faults(plan) {
        return (child::run_forked(plan, sandbox, full, verbose, judge_fn), vec![], prepared);
    }
    let root = exec::TREE_ROOT.get_or_init(|| sandbox.parent().expect("run root").join("tree")).clone();
    let mut tree = tree::Tree::ensure(&root);
    let applied = tree.apply(plan);
    let res = child::run_forked(plan, sandbox, full, verbose, judge_fn);
    tree.restore();
    (res, applied, prepared)
}

fn run_line(group: &workload::Group, plan: &Plan, is_ref: bool, rec: &ExecRecord, violations: &[Violation]) -> serde_json::Value {
    json!({
        "t": "run",
        "group": group.index,
        "ref": is_ref,
        "source": plan.source,
        "options": plan.options.label(),
        "strategy": match plan.strategy.also.first() {
            Some((also, _)) => format!("{}+{}", plan.strategy.name, also.split(':').next().unwrap_or(also)),
            None => plan.strategy.name.clone(),
        },
        "victim": plan.strategy.victim,
        "workers": plan.workers,
        "mask_bits": plan.yield_mask.count_ones(),
        "outcome": rec.outcome.class,
        "detail": oracle::trunc(&rec.outcome.detail, 200),
        "steps": rec.steps,
        "tasks": rec.tasks,
        "jobs": rec.jobs.len(),
        "max_runnable": rec.max_runnable,
        "joh": format!("{:x}", rec.job_order_hash),
        "logh": format!("{:x}", rec.log_hash),
        "sha": rec.font_sha,
        "accesses": rec.n_access,
        "coord_states": rec.coord_states.len(),
        "probes": rec.probes,
        "faults": rec.faults_fired,
        "clock_ns": rec.sim_clock_ns,
        "clock_reads": rec.clock_reads,
        "nviol": violations.len(),
        "pairs": rec.conflicting_pairs_checked,
    })
}

fn cmd_check(args: &[String]) {
    let property = args[2].clone();
    let tier = arg_value(args, "--tier").unwrap_or_else(|| "quick".into());
    let seed: u64 = arg_value(args, "--seed").and_then(|s| s.parse().ok()).unwrap_or(1);
    let shard: usize = arg_value(args, "--shard").and_then(|s| s.parse().ok()).unwrap_or(0);
    let shards: usize = arg_value(args, "--shards").and_then(|s| s.parse().ok()).unwrap_or(1);
    let budget_s: f64 = arg_value(args, "--budget").and_then(|s| s.parse().ok()).unwrap_or(f64::MAX);
    let only: Option<String> = arg_value(args, "--only");
    let max_viol: usize = arg_value(args, "--max-violations").and_then(|s| s.parse().ok()).unwrap_or(60);
    exec::install_panic_hook();
    sim::install_hooks();
    let sandbox = scratch_root().join(format!("shard-{}-{}", shard, std::process::id())).join("sb");
    let mut groups = workload::groups(&property, &tier, seed);
    let total = groups.len();
    // a seeded shuffle, so that a wall-clock budget or a group limit samples the workload
    // evenly instead of always dropping the same (last) sources
    {
        let mut order = plan::Prng::new(seed ^ 0x0bad_5eed);
        for i in (1..groups.len()).rev() {
            let j = order.below(i + 1);
            groups.swap(i, j);
        }
        for (pos, g) in groups.iter_mut().enumerate() {
            g.position = pos;
        }
    }
    let limit: usize = arg_value(args, "--groups-limit").and_then(|s| s.parse().ok()).unwrap_or(usize::MAX);
    // real time, for the budget only; never feeds a decision inside a run
    let t0 = real_now();
    let mut skipped = 0usize;
    let mut reported = 0usize;
    let mut seen_sigs: std::collections::HashMap<String, usize> = std::collections::HashMap::new();
    for g in groups {
        if g.position % shards != shard || g.position >= limit {
            continue;
        }
        if let Some(only) = &only {
            if !g.reference.source.contains(only.as_str()) {
                continue;
            }
        }
        if real_now() - t0 > budget_s {
            skipped += 1;
            continue;
        }
        let _ = std::fs::remove_dir_all(&sandbox);
        let t_run = real_now();
        let ref_prop = property.clone();
        let ref_plan = g.reference.clone();
        let (ref_res, _, _) = run_plan(&g.reference, &sandbox, true, false, &|rec| {
            // the structural check and the outcome oracle need no second run to compare with
            match ref_prop.as_str() {
                "C02" => oracle::c02_single(true, rec),
                "C15" => oracle::c15(&ref_plan, rec),
                _ => vec![],
            }
        });
        let mut line = run_line(&g, &g.reference, true, &ref_res.rec, &ref_res.violations);
        let ref_wall_ms = ((real_now() - t_run) * 1000.0) as u64;
        line["wall_ms"] = json!(ref_wall_ms);
        emit(line);
        if ref_res.rec.outcome.class == "harness" {
            emit(json!({"t": "harness", "group": g.index, "plan": g.reference, "detail": ref_res.rec.outcome.detail}));
            continue;
        }
        for viol in &ref_res.violations {
            let sig: String = format!("{}|{}|{}", viol.property, viol.class, viol.detail.chars().filter(|c| !c.is_ascii_digit()).take(48).collect::<String>());
            let n = seen_sigs.entry(sig).or_insert(0usize);
            *n += 1;
            if *n <= 3 && reported < max_viol {
                reported += 1;
                emit(json!({
                    "t": "violation",
                    "property": viol.property,
                    "class": viol.class,
                    "detail": viol.detail,
                    "reference": g.reference,
                    "plan": g.reference,
                    "observed": {"outcome": ref_res.rec.outcome, "panics": ref_res.rec.panics, "steps": ref_res.rec.steps},
                }));
            }
        }
        if ref_wall_ms > HEAVY_REFERENCE_MS {
            // A source whose plain build takes this long (the generator can produce component
            // graphs on which fontc's walks are exponential, a listed finding of C15) is judged as
            // a reference run and left at that: its variations would take hours, and their bounds,
            // scaled from this run, would mean nothing.
            emit(json!({"t": "skipped-heavy", "group": g.index, "source": g.reference.source, "gen_seed": g.reference.gen_seed, "wall_ms": ref_wall_ms}));
            skipped += 1;
            continue;
        }
        let reference = ref_res.rec;
        // bounds for the variations scale with what the reference run needed
        let ref_wall_s = ref_wall_ms as f64 / 1000.0;
        let max_steps = exec::MAX_STEPS.max(reference.steps * 50);
        let cpu_limit = child::CPU_LIMIT_S.max((ref_wall_s * 100.0).ceil() as u64);
        for mut v in workload::variations(&g, &reference) {
            v.max_steps = Some(max_steps);
            v.cpu_limit_s = Some(cpu_limit);
            if real_now() - t0 > budget_s {
                skipped += 1;
                break;
            }
            let _ = std::fs::remove_dir_all(&sandbox);
            let prop = property.clone();
            let t_run = real_now();
            let (mut res, mut applied, mut prepared) = run_plan(&v, &sandbox, false, false, &|rec| judge(&prop, &v, &reference, rec));
            if res.rec.outcome.class == "steps-exhausted" && v.max_steps.unwrap_or(exec::MAX_STEPS) < STEPS_SECOND_CHANCE {
                // The step bound scales with the reference run, which yields nowhere inside jobs; a
                // variation that yields at every Context access can need thousands of times more
                // steps and still be making progress. Only a run that also exhausts a bound a
                // hundred times larger is called stuck.
                v.max_steps = Some(STEPS_SECOND_CHANCE);
                v.cpu_limit_s = Some(v.cpu_limit_s.unwrap_or(child::CPU_LIMIT_S).max(900));
                let _ = std::fs::remove_dir_all(&sandbox);
                (res, applied, prepared) = run_plan(&v, &sandbox, false, false, &|rec| judge(&prop, &v, &reference, rec));
                *res.rec.probes.entry("second-chance-after-step-bound".to_string()).or_default() += 1;
            }
            for h in &prepared {
                let kind = match &v.history {
                    plan::History::Clean => "history-clean",
                    plan::History::SameSource => "history-same-source",
                    plan::History::OtherSource(_) => "history-other-source",
                    plan::History::Crashed(_) if h.ends_with("crashed") => "history-crashed",
                    plan::History::Crashed(_) => "history-crashed(finished-before-crash-point)",
                };
                *res.rec.faults_fired.entry(kind.to_string()).or_default() += 1;
            }
            if !v.evict.is_empty() {
                *res.rec.faults_fired.entry("eviction-set".to_string()).or_default() += 1;
            }
            for f in v.faults.iter().filter(|f| f.kind.starts_with("src-")) {
                *res.rec.faults_fired.entry(format!("{}{}", f.kind, if applied.is_empty() { "(not-applicable)" } else { "" })).or_default() += 1;
            }
            let mut line = run_line(&g, &v, false, &res.rec, &res.violations);
            line["wall_ms"] = json!(((real_now() - t_run) * 1000.0) as u64);
            emit(line);
            if res.rec.outcome.class == "harness" {
                emit(json!({"t": "harness", "group": g.index, "plan": v, "detail": res.rec.outcome.detail}));
            }
            for viol in &res.violations {
                // a few examples per kind of violation, so that one frequent kind cannot crowd out the rest
                let sig: String = format!("{}|{}|{}", viol.property, viol.class, viol.detail.chars().filter(|c| !c.is_ascii_digit()).take(48).collect::<String>());
                let n = seen_sigs.entry(sig).or_insert(0usize);
                *n += 1;
                if *n <= 3 && reported < max_viol {
                    reported += 1;
                    emit(json!({
                        "t": "violation",
                        "property": viol.property,
                        "class": viol.class,
                        "detail": viol.detail,
                        "reference": g.reference,
                        "plan": v,
                        "observed": {"outcome": res.rec.outcome, "panics": res.rec.panics, "steps": res.rec.steps, "faults_applied": applied, "history": prepared, "fault_log": res.rec.fault_log},
                    }));
                }
            }
        }
    }
    if let Some(run_root) = sandbox.parent() {
        let _ = std::fs::remove_dir_all(run_root);
    }
    emit(json!({"t": "done", "shard": shard, "groups_total": total, "skipped_for_budget": skipped}));
}

fn real_now() -> f64 {
    let mut ts = libc::timespec { tv_sec: 0, tv_nsec: 0 };
    unsafe { libc::syscall(libc::SYS_clock_gettime, libc::CLOCK_MONOTONIC, &mut ts) };
    ts.tv_sec as f64 + ts.tv_nsec as f64 * 1e-9
}

/// Re-run a recorded violation: reference plan, then the failing plan, then the same oracles.
/// Exit 0 and a VIOLATION line if it reproduces, 3 if it does not.
/// a reference run slower than this gets no variations (see the check loop)
const HEAVY_REFERENCE_MS: u64 = 20_000;

/// the step bound a run gets when it exhausted the ordinary one (see the check loop)
const STEPS_SECOND_CHANCE: usize = 500_000_000;

fn cmd_replay(args: &[String]) {
    let path = &args[2];
    let text = std::fs::read_to_string(path).expect("read replay file");
    let v: serde_json::Value = serde_json::from_str(&text).expect("parse replay file");
    let property = v["property"].as_str().unwrap_or("").to_string();
    let class = v["class"].as_str().unwrap_or("").to_string();
    let reference: Plan = serde_json::from_value(v["reference"].clone()).expect("reference plan");
    let plan: Plan = serde_json::from_value(v["plan"].clone()).expect("plan");
    let verbose = args.iter().any(|a| a == "--verbose");
    exec::install_panic_hook();
    sim::install_hooks();
    let sandbox = scratch_root().join(format!("replay-{}", std::process::id())).join("sb");
    let _ = std::fs::remove_dir_all(&sandbox);
    let (ref_res, _, _) = run_plan(&reference, &sandbox, true, false, &|_| vec![]);
    let _ = std::fs::remove_dir_all(&sandbox);
    let reference_rec = ref_res.rec;
    let check_prop = plan.property.clone();
    let (res, applied, prepared) = run_plan(&plan, &sandbox, true, verbose, &|rec| judge(&check_prop, &plan, &reference_rec, rec));
    for h in &prepared {
        eprintln!("{h}");
    }
    if let Some(run_root) = sandbox.parent() {
        let _ = std::fs::remove_dir_all(run_root);
    }
    for a in &applied {
        eprintln!("fault applied: {a}");
    }
    if verbose {
        if let Some(log) = &res.rec.log {
            for l in log {
                eprintln!("{l}");
            }
        }
    }
    let hit = res.violations.iter().find(|x| x.property == property && x.class == class);
    println!(
        "{}",
        json!({"outcome": res.rec.outcome, "steps": res.rec.steps, "logh": format!("{:x}", res.rec.log_hash), "violations": res.violations, "panics": res.rec.panics})
    );
    match hit {
        Some(h) => {
            println!("REPRODUCED property={} class={} detail={}", h.property, h.class, h.detail);
            println!("VIOLATION property={} replay={}", h.property, path);
            std::process::exit(0);
        }
        None => {
            println!("NOT-REPRODUCED property={property} class={class}");
            std::process::exit(3);
        }
    }
}


/// Shrink a recorded violation while the same violation class persists: drop faults, the
/// eviction set and the build-directory history, reset every environment dimension to the
/// reference value, and turn the schedule into "sequential + the fewest deviations".
/// Rewrites the file in place; exit 0 if it still reproduces afterwards.
fn cmd_minimise(args: &[String]) {
    let path = &args[2];
    let text = std::fs::read_to_string(path).expect("read replay file");
    let mut v: serde_json::Value = serde_json::from_str(&text).expect("parse replay file");
    let property = v["property"].as_str().unwrap_or("").to_string();
    let class = v["class"].as_str().unwrap_or("").to_string();
    let reference: Plan = serde_json::from_value(v["reference"].clone()).expect("reference plan");
    let original: Plan = serde_json::from_value(v["plan"].clone()).expect("plan");
    let budget: usize = arg_value(args, "--runs").and_then(|s| s.parse().ok()).unwrap_or(500);
    exec::install_panic_hook();
    sim::install_hooks();
    let sandbox = scratch_root().join(format!("min-{}", std::process::id())).join("sb");
    let _ = std::fs::remove_dir_all(&sandbox);
    let (ref_res, _, _) = run_plan(&reference, &sandbox, true, false, &|_| vec![]);
    let reference_rec = ref_res.rec;
    let runs = std::cell::Cell::new(0usize);
    let check_prop = original.property.clone();
    // returns the record when the candidate still shows the violation
    let still_fails = |cand: &Plan| -> Option<ExecRecord> {
        if runs.get() >= budget {
            return None;
        }
        runs.set(runs.get() + 1);
        let _ = std::fs::remove_dir_all(&sandbox);
        let (res, _, _) = run_plan(cand, &sandbox, true, false, &|rec| judge(&check_prop, cand, &reference_rec, rec));
        res.violations.iter().any(|x| x.property == property && x.class == class).then_some(res.rec)
    };
    let hit_detail = v["detail"].as_str().unwrap_or("").to_string();
    let Some(mut best_rec) = still_fails(&original) else {
        println!("NOT-REPRODUCED before minimising");
        std::process::exit(3);
    };
    let mut best = original.clone();
    let mut notes: Vec<String> = Vec::new();
    macro_rules! attempt {
        ($what:expr, $edit:expr) => {{
            let mut cand = best.clone();
            #[allow(clippy::redundant_closure_call)]
            ($edit)(&mut cand);
            if cand != best {
                if let Some(rec) = still_fails(&cand) {
                    best = cand;
                    best_rec = rec;
                    notes.push(format!("not needed: {}", $what));
                } else {
                    notes.push(format!("needed: {}", $what));
                }
            }
        }};
    }
    // faults, one at a time from the back
    let mut i = best.faults.len();
    while i > 0 {
        i -= 1;
        let name = format!("fault {} {:?}", best.faults[i].kind, best.faults[i].target);
        if reference.faults.contains(&best.faults[i]) {
            // an edit the reference run shares is part of the source the two runs compile
            notes.push(format!("part of the source: {name}"));
            continue;
        }
        attempt!(name, |p: &mut Plan| {
            p.faults.remove(i);
        });
    }
    attempt!("eviction set", |p: &mut Plan| p.evict.clear());
    if best.evict.len() > 1 {
        let mut i = best.evict.len();
        while i > 0 && best.evict.len() > 1 {
            i -= 1;
            let name = format!("evicting {}", best.evict[i]);
            attempt!(name, |p: &mut Plan| {
                p.evict.remove(i);
            });
        }
    }
    attempt!("build-directory history", |p: &mut Plan| p.history = plan::History::Clean);
    attempt!("read-back", |p: &mut Plan| p.readback = false);
    attempt!("hash seed different from the reference run", |p: &mut Plan| p.hash_seed = reference.hash_seed);
    attempt!("simulated wall clock different from the reference run", |p: &mut Plan| p.epoch = reference.epoch);
    attempt!("yield points inside job bodies", |p: &mut Plan| p.yield_mask = 0);
    attempt!("more than one worker", |p: &mut Plan| p.workers = 1);
    if best.strategy.victim.is_some() {
        attempt!("a random base schedule (sequential everywhere except around the singled-out job)", |p: &mut Plan| {
            p.strategy.base = Some("seq".into())
        });
    }
    attempt!("any schedule other than the sequential one", |p: &mut Plan| {
        p.strategy = plan::Strategy::seq();
        p.overrides.clear();
    });
    // a schedule that can be said in a few words beats a list of deviations: try singling out
    // each job the violation names, on an otherwise sequential schedule
    if (best.strategy.name != "seq" || !best.overrides.is_empty())
        && !(best.strategy.victim.is_some() && best.strategy.base.as_deref() == Some("seq"))
    {
        let mut named: Vec<String> = reference_rec
            .jobs
            .iter()
            .filter(|j| hit_detail.contains(j.as_str()))
            .cloned()
            .collect();
        named.sort_by_key(|j| std::cmp::Reverse(j.len()));
        named.truncate(4);
        'outer: for job in &named {
            for kind in ["delay-done-b", "delay-start", "delay-done-a", "rush"] {
                let mut cand = best.clone();
                cand.overrides.clear();
                cand.strategy = plan::Strategy {
                    name: kind.into(),
                    seed: best.strategy.seed,
                    victim: Some(job.clone()),
                    depth: 0,
                    horizon: 0,
                    base: Some("seq".into()),
                    also: vec![],
                };
                if let Some(rec) = still_fails(&cand) {
                    best = cand;
                    best_rec = rec;
                    break 'outer;
                }
            }
        }
    }
    let victim_on_seq = best.strategy.victim.is_some() && best.strategy.base.as_deref() == Some("seq");
    if victim_on_seq {
        notes.push(format!("schedule: sequential, except that {} is applied to {}", best.strategy.name, best.strategy.victim.clone().unwrap_or_default()));
    }
    if best.strategy.name != "seq" && !victim_on_seq {
        // express the schedule as sequential + deviations, then shrink the deviations (ddmin)
        let mut cand = best.clone();
        cand.strategy = plan::Strategy::seq();
        cand.overrides = best_rec.deviations.clone();
        if let Some(rec) = still_fails(&cand) {
            best = cand;
            best_rec = rec;
            let mut n = 2usize;
            while best.overrides.len() >= 2 && runs.get() < budget {
                let len = best.overrides.len();
                let chunk = len.div_ceil(n);
                let mut reduced = false;
                let mut start = 0;
                while start < len {
                    let end = (start + chunk).min(len);
                    let mut cand = best.clone();
                    cand.overrides = best.overrides[..start].iter().chain(best.overrides[end..].iter()).cloned().collect();
                    if let Some(rec) = still_fails(&cand) {
                        best = cand;
                        best_rec = rec;
                        n = (n - 1).max(2);
                        reduced = true;
                        break;
                    }
                    start = end;
                }
                if !reduced {
                    if n >= len {
                        break;
                    }
                    n = (n * 2).min(len);
                }
            }
            notes.push(format!("schedule reduced to sequential + {} deviations (step, task)", best.overrides.len()));
        } else {
            notes.push("schedule kept as a strategy: the deviation list did not reproduce it".to_string());
        }
    }
    // one last verbose run for the annotated log
    let _ = std::fs::remove_dir_all(&sandbox);
    let (res, applied, prepared) = run_plan(&best, &sandbox, true, true, &|rec| judge(&check_prop, &best, &reference_rec, rec));
    if let Some(run_root) = sandbox.parent() {
        let _ = std::fs::remove_dir_all(run_root);
    }
    let hit = res.violations.iter().find(|x| x.property == property && x.class == class).cloned();
    let Some(hit) = hit else {
        println!("minimised plan lost the violation; keeping the original file");
        std::process::exit(3);
    };
    let log = res.rec.log.clone().unwrap_or_default();
    let tail: Vec<String> = log.iter().rev().take(60).rev().cloned().collect();
    v["plan"] = serde_json::to_value(&best).unwrap();
    v["detail"] = json!(hit.detail);
    v["minimised"] = json!({
        "runs_used": runs.get(),
        "notes": notes,
        "faults_applied": applied,
        "history": prepared,
        "steps": res.rec.steps,
        "log_hash": format!("{:x}", res.rec.log_hash),
        "event_log_tail": tail,
        "panics": res.rec.panics,
        "outcome": res.rec.outcome,
    });
    std::fs::write(path, serde_json::to_string_pretty(&v).unwrap()).expect("rewrite replay file");
    println!("minimised with {} runs: {}", runs.get(), notes.join("; "));
    let _ = best_rec;
}

fn main() {
    // the harness itself must not depend on real entropy either
    shims::set_entropy(0x5eed_0000_0000_0001);
    let args: Vec<String> = std::env::args().collect();
    let cmd = args.get(1).map(String::as_str).unwrap_or("");
    match cmd {
        "run-one" => {
            let text = std::fs::read_to_string(&args[2]).expect("read plan");
            let plan: Plan = serde_json::from_str(&text).expect("parse plan");
            let verbose = args.iter().any(|a| a == "--verbose");
            let sandbox = scratch_root().join(format!("one-{}", std::process::id())).join("sb");
            let _ = std::fs::remove_dir_all(&sandbox);
            exec::install_panic_hook();
            sim::install_hooks();
            if let Some(profile) = plan.source.strip_prefix("gen:") {
                generate::materialize(plan.gen_seed.unwrap_or(0), profile, &sandbox.join("gen"));
            }
            let rec = exec::execute(&plan, &sandbox, verbose);
            if let Some(keep) = arg_value(&args, "--keep-font") {
                if let Some(font) = &rec.font {
                    std::fs::write(keep, font).expect("write font copy");
                }
            }
            if let Some(keep) = arg_value(&args, "--keep-sandbox") {
                let _ = std::fs::remove_dir_all(&keep);
                let _ = std::fs::rename(&sandbox, &keep);
            }
            if let Some(run_root) = sandbox.parent() {
                let _ = std::fs::remove_dir_all(run_root);
            }
            if verbose {
                if let Some(log) = &rec.log {
                    for l in log {
                        eprintln!("{l}");
                    }
                }
            }
            let mut slim = rec.clone();
            slim.log = None;
            if !args.iter().any(|a| a == "--full") {
                slim.reads.clear();
                slim.scans.clear();
                slim.scan_tab.clear();
                slim.coord_states.clear();
            }
            println!("{}", serde_json::to_string_pretty(&slim).unwrap());
        }
        "bench" => {
            let text = std::fs::read_to_string(&args[2]).expect("read plan");
            let plan: Plan = serde_json::from_str(&text).expect("parse plan");
            let n: usize = args[3].parse().unwrap();
            let fork = args.iter().any(|a| a == "--fork");
            let sandbox = scratch_root().join(format!("bench-{}", std::process::id())).join("sb");
            exec::install_panic_hook();
            sim::install_hooks();
            let t0 = real_now();
            for _ in 0..n {
                let _ = std::fs::remove_dir_all(&sandbox);
                if fork {
                    let _ = child::run_forked(&plan, &sandbox, false, false, &|_| vec![]);
                } else {
                    let _ = exec::execute(&plan, &sandbox, false);
                }
            }
            if let Some(run_root) = sandbox.parent() {
                let _ = std::fs::remove_dir_all(run_root);
            }
            println!("{} runs in {:.3}s = {:.2} ms/run", n, real_now() - t0, (real_now() - t0) * 1000.0 / n as f64);
        }
        "check" => cmd_check(&args),
        "replay" => cmd_replay(&args),
        "minimise" => cmd_minimise(&args),
        "gen" => {
            let seed: u64 = args[2].parse().expect("seed");
            let profile = args[3].clone();
            let dir = PathBuf::from(&args[4]);
            let ds = generate::materialize(seed, &profile, &dir);
            println!("{}", dir.join(ds).display());
        }
        "corpus" => {
            for c in workload::corpus() {
                println!("{c}");
            }
        }
        _ => {
            eprintln!("usage: fontc-sim run-one <plan.json> [--verbose] | check <prop> --tier T --seed N --shard i --shards n | replay <file> | corpus");
            std::process::exit(2);
        }
    }
}
