//! A plan is everything that decides one simulated execution; it is also the replay file.

use serde::{Deserialize, Serialize};

use crate::shims::splitmix;

#[derive(Clone, Debug)]
pub struct Prng(pub u64);

impl Prng {
    pub fn new(seed: u64) -> Self {
        let mut s = seed ^ 0x5851F42D4C957F2D;
        splitmix(&mut s);
        Prng(s)
    }
    pub fn next(&mut self) -> u64 {
        splitmix(&mut self.0)
    }
    pub fn below(&mut self, n: usize) -> usize {
        if n == 0 { 0 } else { (self.next() % n as u64) as usize }
    }
    pub fn chance(&mut self, num: u64, den: u64) -> bool {
        self.next() % den < num
    }
    pub fn pick<'a, T>(&mut self, xs: &'a [T]) -> &'a T {
        &xs[self.below(xs.len())]
    }
    pub fn fork(&mut self, label: &str) -> Prng {
        let mut s = self.next() ^ crate::sha256::fnv(label.as_bytes());
        splitmix(&mut s);
        Prng(s)
    }
}

/// Compiler options, held fixed inside a C01 group
#[derive(Clone, Debug, Default, Serialize, Deserialize, PartialEq, Eq, Hash)]
pub struct Opts {
    /// Names of `Flags` to enable on top of the defaults
    #[serde(default)]
    pub enable: Vec<String>,
    /// Names of `Flags` to disable
    #[serde(default)]
    pub disable: Vec<String>,
    #[serde(default)]
    pub skip_features: bool,
    #[serde(default)]
    pub compile_debg: bool,
    /// `--emit-ir`
    #[serde(default)]
    pub emit_ir: bool,
    /// `--emit-debug`
    #[serde(default)]
    pub emit_debug: bool,
    /// `--emit-timing`
    #[serde(default)]
    pub emit_timing: bool,
    /// put the output file at the path the IR layer itself writes the font to
    #[serde(default)]
    pub output_in_ir_dir: bool,
}

impl Opts {
    pub fn label(&self) -> String {
        let mut parts = Vec::new();
        for e in &self.enable {
            parts.push(format!("+{e}"));
        }
        for d in &self.disable {
            parts.push(format!("-{d}"));
        }
        for (on, name) in [
            (self.skip_features, "skip_features"),
            (self.compile_debg, "debg"),
            (self.emit_ir, "emit_ir"),
            (self.emit_debug, "emit_debug"),
            (self.emit_timing, "emit_timing"),
            (self.output_in_ir_dir, "out_in_ir"),
        ] {
            if on {
                parts.push(name.to_string());
            }
        }
        if parts.is_empty() { "default".into() } else { parts.join(",") }
    }
}

#[derive(Clone, Debug, Serialize, Deserialize, PartialEq)]
pub struct Strategy {
    /// seq | rand | pct | delay-start | delay-done-a | delay-done-b | rush | starve-coord | eager-coord
    pub name: String,
    #[serde(default)]
    pub seed: u64,
    /// Debug text of the job the strategy singles out (exact match)
    #[serde(default)]
    pub victim: Option<String>,
    /// pct: number of priority change points
    #[serde(default)]
    pub depth: usize,
    /// pct: the steps over which change points are spread (from the reference run)
    #[serde(default)]
    pub horizon: usize,
    /// base strategy when a victim strategy has no opinion: seq | rand
    #[serde(default)]
    pub base: Option<String>,
    /// further (strategy name, job) pairs applied on top, e.g. park one job's start while
    /// another job's completion message is held back
    #[serde(default)]
    pub also: Vec<(String, String)>,
}

impl Strategy {
    pub fn seq() -> Self {
        Strategy { name: "seq".into(), seed: 0, victim: None, depth: 0, horizon: 0, base: None, also: vec![] }
    }
    pub fn label(&self) -> String {
        match &self.victim {
            Some(v) if !self.also.is_empty() => {
                let more: Vec<String> = self.also.iter().map(|(n, j)| format!("{n}({j})")).collect();
                format!("{}({})+{}", self.name, v, more.join("+"))
            }
            Some(v) => format!("{}({})", self.name, v),
            None if self.name == "pct" => format!("pct({})", self.depth),
            None => self.name.clone(),
        }
    }
}

/// What the build directory holds before the run
#[derive(Clone, Debug, Serialize, Deserialize, PartialEq, Default)]
pub enum History {
    #[default]
    Clean,
    /// a previous complete build of the same source
    SameSource,
    /// a previous complete build of another source (relative path in the corpus)
    OtherSource(String),
    /// a previous build of the same source that died at this scheduling step
    Crashed(usize),
}

#[derive(Clone, Debug, Serialize, Deserialize, PartialEq)]
pub struct Fault {
    /// job-panic | job-err | io-step-err | write-err | write-short | write-torn |
    /// src-truncate | src-bitrot | src-delete | src-misdirect | src-empty | src-dup-lines |
    /// src-drop-lines | src-number | src-cycle | src-nest | src-soup | open-eio | read-eio | open-emfile | open-enoent
    pub kind: String,
    /// job text, path (relative to the sandbox) or step name, depending on kind
    #[serde(default)]
    pub target: Option<String>,
    /// the n-th matching opportunity (0-based)
    #[serde(default)]
    pub nth: usize,
    /// kind-specific number (offset, count, errno, ...)
    #[serde(default)]
    pub arg: i64,
}

#[derive(Clone, Debug, Serialize, Deserialize, PartialEq)]
pub struct Plan {
    pub property: String,
    /// path relative to /repo/resources/testdata, or `gen:<name>` for a generated source
    pub source: String,
    /// parameters of a generated source
    #[serde(default)]
    pub gen_seed: Option<u64>,
    #[serde(default)]
    pub options: Opts,
    pub hash_seed: u64,
    /// simulated wall clock at start, seconds since 1970
    pub epoch: i64,
    #[serde(default)]
    pub source_date_epoch: Option<i64>,
    /// simulated pool workers; 0 = unbounded
    pub workers: usize,
    pub strategy: Strategy,
    /// which Context access sites yield to the scheduler (bit per site class)
    pub yield_mask: u64,
    #[serde(default)]
    pub history: History,
    #[serde(default)]
    pub faults: Vec<Fault>,
    /// item keys whose value is dropped from memory right after it is persisted (C14 R2)
    #[serde(default)]
    pub evict: Vec<String>,
    /// run-time read-back of every persisted item (C14 R1)
    #[serde(default)]
    pub readback: bool,
    /// sparse schedule overrides: at step n run task t (if runnable)
    #[serde(default)]
    pub overrides: Vec<(usize, usize)>,
    /// stop the process dead at this scheduling step (used to manufacture crashed histories)
    #[serde(default)]
    pub crash_at: Option<usize>,
    /// bound on scheduling steps (default 5M); variations get 50x what their reference run took
    #[serde(default)]
    pub max_steps: Option<usize>,
    /// bound on CPU seconds (default 30); variations get 40x what their reference run took
    #[serde(default)]
    pub cpu_limit_s: Option<u64>,
    /// free-form: what the run that produced this file observed
    #[serde(default)]
    pub expect: Option<serde_json::Value>,
}

impl Plan {
    pub fn reference(property: &str, source: &str, options: Opts) -> Plan {
        Plan {
            property: property.into(),
            source: source.into(),
            gen_seed: None,
            options,
            hash_seed: 0x0123_4567_89ab_cdef,
            epoch: 1_700_000_000,
            source_date_epoch: Some(1_600_000_000),
            workers: 1,
            strategy: Strategy::seq(),
            yield_mask: 0,
            history: History::Clean,
            faults: vec![],
            evict: vec![],
            readback: false,
            overrides: vec![],
            crash_at: None,
            max_steps: None,
            cpu_limit_s: None,
            expect: None,
        }
    }

    pub fn label(&self) -> String {
        format!(
            "{} [{}] h={:x} w={} {} mask={:x}{}",
            self.source,
            self.options.label(),
            self.hash_seed,
            self.workers,
            self.strategy.label(),
            self.yield_mask,
            if self.faults.is_empty() { String::new() } else { format!(" faults={}", self.faults.len()) }
        )
    }
}
