//! Process isolation: every simulated execution runs in a freshly forked child so that
//! process-global state (lazily built hash maps, the compiler's own statics) is re-drawn,
//! a crash is an outcome instead of the end of the batch, and resource bounds are per run.

use std::{
    io::Read,
    os::fd::FromRawFd,
    path::Path,
};

use serde::{Deserialize, Serialize};

use crate::{
    exec::{self, ExecRecord, Outcome},
    oracle::Violation,
    plan::Plan,
};

pub const CPU_LIMIT_S: u64 = 60;
pub const MEM_LIMIT: u64 = 8 << 30;
pub const WALL_LIMIT_MS: i32 = 300_000;

#[derive(Serialize, Deserialize, Default)]
pub struct ChildResult {
    pub rec: ExecRecord,
    pub violations: Vec<Violation>,
    /// font bytes travel separately (ExecRecord skips them)
    pub font: Option<Vec<u8>>,
}

/// Fork, run `plan` in the child, judge it there with `judge` (which sees everything the
/// parent had in memory at the time of the fork, e.g. the reference record) and bring
/// back the record. `full` keeps the bulky parts (reads, scans, font bytes).
pub fn run_forked(
    plan: &Plan,
    sandbox: &Path,
    full: bool,
    verbose: bool,
    judge: &dyn Fn(&ExecRecord) -> Vec<Violation>,
) -> ChildResult {
    let mut fds = [0i32; 2];
    if unsafe { libc::pipe(fds.as_mut_ptr()) } != 0 {
        panic!("pipe failed");
    }
    let pid = unsafe { libc::fork() };
    if pid < 0 {
        panic!("fork failed");
    }
    if pid == 0 {
        // child
        unsafe {
            libc::close(fds[0]);
            if !verbose {
                // shuttle and the compiler print to stderr on panics that are ordinary outcomes here
                let devnull = libc::open(c"/dev/null".as_ptr(), libc::O_WRONLY);
                if devnull >= 0 {
                    libc::dup2(devnull, 2);
                    libc::close(devnull);
                }
            }
            let limit = plan.cpu_limit_s.unwrap_or(CPU_LIMIT_S);
            let cpu = libc::rlimit { rlim_cur: limit, rlim_max: limit + 5 };
            libc::setrlimit(libc::RLIMIT_CPU, &cpu);
            let mem = libc::rlimit { rlim_cur: MEM_LIMIT, rlim_max: MEM_LIMIT };
            libc::setrlimit(libc::RLIMIT_AS, &mem);
            let core = libc::rlimit { rlim_cur: 0, rlim_max: 0 };
            libc::setrlimit(libc::RLIMIT_CORE, &core);
        }
        let mut rec = exec::execute(plan, sandbox, verbose);
        let violations = judge(&rec);
        let font = if full { rec.font.take() } else { None };
        if !full {
            rec.reads.clear();
            rec.scans.clear();
            rec.scan_tab.clear();
            rec.coord_states.truncate(4096);
            if violations.is_empty() {
                rec.storage.clear();
                rec.readbacks.clear();
                rec.getters.clear();
                rec.deviations.clear();
                rec.build_files.clear();
            }
        }
        let res = ChildResult { rec, violations, font };
        let bytes = serde_json::to_vec(&res).unwrap_or_default();
        let mut off = 0;
        while off < bytes.len() {
            let n = unsafe { libc::write(fds[1], bytes[off..].as_ptr() as *const libc::c_void, bytes.len() - off) };
            if n <= 0 {
                break;
            }
            off += n as usize;
        }
        unsafe { libc::_exit(0) }
    }
    // parent
    unsafe { libc::close(fds[1]) };
    let mut buf = Vec::new();
    let mut timed_out = false;
    {
        let mut f = unsafe { std::fs::File::from_raw_fd(fds[0]) };
        let mut chunk = [0u8; 65536];
        loop {
            let mut pfd = libc::pollfd { fd: fds[0], events: libc::POLLIN, revents: 0 };
            let r = unsafe { libc::poll(&mut pfd, 1, WALL_LIMIT_MS) };
            if r == 0 {
                timed_out = true;
                unsafe { libc::kill(pid, libc::SIGKILL) };
                break;
            }
            if r < 0 {
                continue;
            }
            match f.read(&mut chunk) {
                Ok(0) => break,
                Ok(n) => buf.extend_from_slice(&chunk[..n]),
                Err(e) if e.kind() == std::io::ErrorKind::Interrupted => continue,
                Err(_) => break,
            }
        }
    }
    let mut status = 0i32;
    unsafe { libc::waitpid(pid, &mut status, 0) };
    if timed_out {
        let mut res = ChildResult::default();
        res.rec.outcome = Outcome { class: "harness".into(), detail: format!("no result within {WALL_LIMIT_MS} ms of wall time") };
        return res;
    }
    if libc::WIFSIGNALED(status) {
        let sig = libc::WTERMSIG(status);
        let mut res = ChildResult::default();
        let class = if sig == libc::SIGXCPU || sig == libc::SIGKILL { "cpu-exhausted" } else { "signal" };
        res.rec.outcome = Outcome { class: class.into(), detail: format!("killed by signal {sig}") };
        // nothing to judge in the child; the caller's judge runs on this stub
        res.violations = judge(&res.rec);
        return res;
    }
    let code = libc::WEXITSTATUS(status);
    if code == 137 && buf.is_empty() {
        let mut res = ChildResult::default();
        res.rec.outcome = Outcome { class: "crashed".into(), detail: "simulated crash".into() };
        return res;
    }
    match serde_json::from_slice::<ChildResult>(&buf) {
        Ok(mut res) => {
            if let Some(font) = res.font.take() {
                res.rec.font = Some(font);
            }
            res
        }
        Err(e) => {
            let mut res = ChildResult::default();
            // exit without a result: abort(), exit() from inside the compiler, or OOM in the child
            let class = if code != 0 { "signal" } else { "harness" };
            res.rec.outcome = Outcome {
                class: class.into(),
                detail: format!("child exit code {code}, unreadable result: {e} ({} bytes)", buf.len()),
            };
            if class == "signal" {
                res.violations = judge(&res.rec);
            }
            res
        }
    }
}
