//! Structural ordering check (C02, oracle O4): every pair of conflicting accesses by two jobs
//! must be ordered by what the scheduler was told — the dependencies each job was launched
//! with, plus the orders the coordinator creates itself (a job added, or given its
//! dependencies, while the completion of another job was being handled).
//!
//! This does not depend on the schedule of the execution it is computed from: one run of
//! a source exposes every conflicting pair that no declared path orders, whether or not
//! the two jobs happened to overlap.

use std::collections::{BTreeMap, BTreeSet, HashMap, HashSet};

#[derive(Clone, Debug, Default)]
pub struct JobInfo {
    /// ids this job also completes
    pub also: Vec<String>,
    /// jobs whose completion was being handled when this job was created or given its dependencies
    pub after: Vec<String>,
    /// Debug text of the read access the job was launched with
    pub access: String,
}

/// Split `text` at commas that are not nested in (), {} or []
fn split_top(text: &str) -> Vec<&str> {
    let mut out = Vec::new();
    let (mut depth, mut start) = (0i32, 0usize);
    for (i, c) in text.char_indices() {
        match c {
            '(' | '{' | '[' => depth += 1,
            ')' | '}' | ']' => depth -= 1,
            ',' if depth == 0 => {
                out.push(text[start..i].trim());
                start = i + 1;
            }
            _ => {}
        }
    }
    let last = text[start..].trim();
    if !last.is_empty() {
        out.push(last);
    }
    out
}

fn strip_call<'a>(text: &'a str, name: &str) -> Option<&'a str> {
    let t = text.trim();
    t.strip_prefix(name)?.strip_prefix('(')?.strip_suffix(')')
}

pub fn parse_id_list(text: &str) -> Vec<String> {
    let t = text.trim();
    let inner = t.strip_prefix('[').and_then(|x| x.strip_suffix(']')).unwrap_or(t);
    split_top(inner).into_iter().map(|s| s.to_string()).collect()
}

#[derive(Debug, Default, Clone)]
pub struct Access {
    pub all: bool,
    /// (is_variant, id text in job-id form, e.g. `Fe(GlyphOrder)`)
    pub items: Vec<(bool, String)>,
}

/// Parse the Debug form of fontc's AnyAccess: `Fe(<access>)` / `Be(<access>)` with
/// `<access>` one of None, Unknown, All, Any(id), Specific(id), Set({Variant(id), SpecificInstanceOfVariant(id), ..})
pub fn parse_access(text: &str) -> Access {
    let t = text.trim();
    let (fe, inner) = if let Some(i) = strip_call(t, "Fe") {
        (true, i)
    } else if let Some(i) = strip_call(t, "Be") {
        (false, i)
    } else {
        (false, t)
    };
    // ids of an FE access are FE ids; job ids carry the Fe(..) wrapper
    let wrap = |id: &str| if fe { format!("Fe({id})") } else { id.to_string() };
    let mut acc = Access::default();
    let inner = inner.trim();
    if inner == "All" {
        acc.all = true;
    } else if let Some(id) = strip_call(inner, "Any") {
        acc.items.push((true, wrap(id)));
    } else if let Some(id) = strip_call(inner, "Specific") {
        acc.items.push((false, wrap(id)));
    } else if let Some(set) = strip_call(inner, "Set") {
        let set = set.trim().strip_prefix('{').and_then(|x| x.strip_suffix('}')).unwrap_or(set);
        for item in split_top(set) {
            if let Some(id) = strip_call(item, "Variant") {
                acc.items.push((true, wrap(id)));
            } else if let Some(id) = strip_call(item, "SpecificInstanceOfVariant") {
                acc.items.push((false, wrap(id)));
            }
        }
    }
    acc
}

/// `Fe(Glyph(a))` -> `Fe(Glyph`
pub fn kind(job: &str) -> &str {
    match job.find('(') {
        Some(i) => match job[i + 1..].find('(') {
            Some(j) => &job[..i + 1 + j],
            None => job.strip_suffix(')').unwrap_or(job),
        },
        None => job,
    }
}

/// hook ids that carry a `#hash` suffix are compared without it against ids inside access texts
fn plain(id: &str) -> &str {
    match id.rfind('#') {
        Some(i) if id[i + 1..].len() == 8 && id[i + 1..].chars().all(|c| c.is_ascii_hexdigit()) => &id[..i],
        _ => id,
    }
}

pub struct Order {
    /// job -> everything forced to complete before it
    before: HashMap<String, HashSet<String>>,
}

impl Order {
    pub fn build(jobs: &[String], info: &BTreeMap<String, JobInfo>) -> Order {
        // what each job stands for: its own id and the ids it also completes
        let mut by_id: HashMap<&str, Vec<&String>> = HashMap::new();
        let mut by_kind: HashMap<&str, Vec<&String>> = HashMap::new();
        for j in jobs {
            let mut names: Vec<&str> = vec![plain(j)];
            if let Some(i) = info.get(j) {
                names.extend(i.also.iter().map(|a| plain(a)));
            }
            for n in names {
                by_id.entry(n).or_default().push(j);
                by_kind.entry(kind(n)).or_default().push(j);
            }
        }
        let mut direct: HashMap<&String, BTreeSet<&String>> = HashMap::new();
        for j in jobs {
            let mut d: BTreeSet<&String> = BTreeSet::new();
            if let Some(i) = info.get(j) {
                for a in &i.after {
                    if let Some((k, _)) = info.get_key_value(a) {
                        d.insert(k);
                    }
                }
                let acc = parse_access(&i.access);
                if acc.all {
                    d.extend(jobs.iter().filter(|k| *k != j));
                }
                for (variant, id) in &acc.items {
                    let hits = if *variant { by_kind.get(kind(plain(id))) } else { by_id.get(plain(id)) };
                    if let Some(hits) = hits {
                        d.extend(hits.iter().copied().filter(|k| *k != j));
                    }
                }
            }
            direct.insert(j, d);
        }
        // transitive closure, depth first with memo (the graph is acyclic for a build that finished)
        let mut before: HashMap<String, HashSet<String>> = HashMap::new();
        fn visit<'a>(
            j: &'a String,
            direct: &HashMap<&'a String, BTreeSet<&'a String>>,
            before: &mut HashMap<String, HashSet<String>>,
            stack: &mut HashSet<&'a String>,
        ) {
            if before.contains_key(j.as_str()) || !stack.insert(j) {
                return;
            }
            let mut all: HashSet<String> = HashSet::new();
            if let Some(ds) = direct.get(j) {
                for d in ds {
                    visit(d, direct, before, stack);
                    all.insert((*d).clone());
                    if let Some(b) = before.get(d.as_str()) {
                        all.extend(b.iter().cloned());
                    }
                }
            }
            stack.remove(j);
            before.insert(j.clone(), all);
        }
        let mut stack = HashSet::new();
        for j in jobs {
            visit(j, &direct, &mut before, &mut stack);
        }
        Order { before }
    }

    pub fn ordered(&self, a: &str, b: &str) -> bool {
        self.before.get(a).map(|s| s.contains(b)).unwrap_or(false) || self.before.get(b).map(|s| s.contains(a)).unwrap_or(false)
    }
}
