#!/bin/bash
# For every regression file: with its patch applied the violation must reproduce, without
# it it must not. usage: regressions/validate.sh [name-filter]   (honours VERIF_REPO)
cd "$(dirname "$0")/.."
REPO=${VERIF_REPO:-/repo}
filter=${1:-}
out=regressions/VALIDATION.txt
[[ -n "$(git -C $REPO status --short)" ]] && { echo "repo dirty"; exit 9; }
./check build > /dev/null || exit 2
for f in regressions/*.json; do
  name=$(basename $f .json)
  [[ -n "$filter" && "$name" != *$filter* ]] && continue
  ./check replay $f > /tmp/reg_clean_$name.txt 2>&1; clean=$?
  patch=$(python3 -c "import json,sys; print(json.load(open('$f'))['regression']['returns_with'])")
  git -C $REPO apply "$(pwd)/$patch" || { echo "$name: patch does not apply" | tee -a $out; continue; }
  ./check replay $f > /tmp/reg_broken_$name.txt 2>&1; broken=$?
  git -C $REPO checkout -- .
  verdict=BAD; [[ $clean == 3 && $broken == 0 ]] && verdict=ok
  echo "$(date +%H:%M) $name: unchanged tree exit=$clean (want 3), with $patch exit=$broken (want 0) => $verdict" | tee -a $out
done
./check build > /dev/null
