#!/usr/bin/env python3
"""gen_component_bomb.py <out.ufo> <levels> <mixed:0|1>
Derive from baseline.ufo: add glyphs g1..gN; g_k = [optional small contour] + component(g_{k-1}) + component(g_{k-1} shifted by 2^(k-1) units in y*0.001).
Acyclic; the fully decomposed form of gN has 2^N copies of 'bar'."""
import sys, shutil, os, re
out, N, mixed = sys.argv[1], int(sys.argv[2]), int(sys.argv[3])
here=os.path.dirname(os.path.abspath(__file__))
shutil.rmtree(out, ignore_errors=True); shutil.copytree(os.path.join(here,'baseline.ufo'), out)
entries=[]
for k in range(1,N+1):
    base = 'bar' if k==1 else 'g%d'%(k-1)
    contour = '<contour><point x="0" y="0" type="line"/><point x="10" y="0" type="line"/><point x="10" y="10" type="line"/></contour>' if mixed else ''
    open(f'{out}/glyphs/g{k}.glif','w').write(f'''<?xml version='1.0' encoding='UTF-8'?>
<glyph name="g{k}" format="2">
  <advance width="500"/>
  <outline>
    {contour}
    <component base="{base}"/>
    <component base="{base}" xOffset="{2**(k-1)*0.000001}"/>
  </outline>
</glyph>
''')
    entries.append(f'    <key>g{k}</key>\n    <string>g{k}.glif</string>\n')
p=f'{out}/glyphs/contents.plist'; s=open(p).read()
s=s.replace('  </dict>', ''.join(entries)+'  </dict>'); open(p,'w').write(s)
