import sys
from glib import *
# nested corner components: _corner.c00 is a plain open corner path; _corner.c01 is a square with 4 Corner hints
# that reference _corner.c00; _corner.c02 is a square with 4 hints referencing _corner.c01; ... each level x4 nodes.
N = int(sys.argv[1]); out = sys.argv[2]
OPEN = '{\nclosed = 0;\nnodes = (\n(0,50,l),\n(-50,50,l),\n(-50,0,l),\n(25,0,l)\n);\n}'
SQ = '{\nclosed = 1;\nnodes = (\n(100,100,l),\n(500,100,l),\n(500,500,l),\n(100,500,l)\n);\n}'
gl = [glyph('_corner.c00', [layer("m01", [OPEN], width=250)], extra="export = 0;\n")]
for i in range(1, N):
    hints = "hints = (\n" + ",\n".join('{\nname = _corner.c%02d;\norigin = (0,%d);\ntype = Corner;\n}' % (i-1, k) for k in range(4)) + "\n);\n"
    gl.append(glyph('_corner.c%02d' % i, [layer("m01", [SQ], extra=hints)], extra="export = 0;\n"))
gl.append(glyph("A", [layer("m01", [SQ])], unicode=65))
open(out, "w").write(font(gl))
