import sys
from glib import *
# Ligature anchor doubling: f_00 = [f_01, f_01], ..., f_(N-1) = simple letter with one "top" anchor.
# All composites are subCategory = Ligature, so propagated anchors are renumbered top_1..top_(2^depth).
N = int(sys.argv[1]); out = sys.argv[2]
gl = []
for i in range(N):
    nm = "lig%02d" % i
    if i == N-1:
        gl.append(glyph(nm, [layer("m01", [SQUARE], extra="anchors = (\n{\nname = top;\npos = (50,100);\n}\n);\n")], extra="category = Letter;\n"))
    else:
        r = "lig%02d" % (i+1)
        gl.append(glyph(nm, [layer("m01", [comp(r, (0,0)), comp(r, (100,0))])], extra="category = Letter;\nsubCategory = Ligature;\n"))
open(out, "w").write(font(gl))
