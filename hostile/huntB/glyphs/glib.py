"""tiny helper to emit Glyphs3 sources for robustness experiments"""
def font(glyphs, masters=(("m01", 400),), axes=(("Weight","wght"),), extra="", custom_params="", family="T"):
    ax = ",\n".join('{\nname = %s;\ntag = %s;\n}' % a for a in axes)
    ms = []
    for m in masters:
        mid = m[0]; vals = m[1:] 
        ms.append('{\naxesValues = (\n%s\n);\nid = %s;\nmetricValues = (\n{\npos = 800;\n},\n{\n},\n{\npos = -200;\n},\n{\npos = 700;\n},\n{\npos = 500;\n}\n);\nname = %s;\n}' % (",\n".join(str(v) for v in vals), mid, "M"+mid))
    return ('{\n.appVersion = "3219";\n.formatVersion = 3;\naxes = (\n%s\n);\n%sfamilyName = %s;\nfontMaster = (\n%s\n);\nglyphs = (\n%s\n);\n%smetrics = (\n{\ntype = ascender;\n},\n{\ntype = baseline;\n},\n{\ntype = descender;\n},\n{\ntype = "cap height";\n},\n{\ntype = "x-height";\n}\n);\nunitsPerEm = 1000;\nversionMajor = 1;\nversionMinor = 0;\n}\n'
            % (ax, custom_params, family, ",\n".join(ms), ",\n".join(glyphs), extra))

SQUARE = '{\nclosed = 1;\nnodes = (\n(0,0,l),\n(100,0,l),\n(100,100,l),\n(0,100,l)\n);\n}'
def comp(ref, pos=None, extra=""):
    p = "pos = (%s,%s);\n" % pos if pos else ""
    return '{\n%s%sref = %s;\n}' % (extra, p, ref)
def layer(mid, shapes=(), width=600, extra=""):
    s = "shapes = (\n%s\n);\n" % ",\n".join(shapes) if shapes else ""
    return '{\n%slayerId = %s;\n%swidth = %s;\n}' % (extra, mid, s, width)
def glyph(name, layers, extra="", unicode=None):
    u = "unicode = %d;\n" % unicode if unicode else ""
    return '{\n%sglyphname = %s;\nlayers = (\n%s\n);\n%s}' % (extra, name, ",\n".join(layers), u)
