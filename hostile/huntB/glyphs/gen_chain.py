import sys
from glib import *
# chain of N glyphs: g000000 -> g000001 -> ... -> g(N-1) = square.  Names sort so referrer comes BEFORE referee.
N = int(sys.argv[1]); out = sys.argv[2]
gl = []
for i in range(N):
    nm = "g%06d" % i
    if i == N-1:
        gl.append(glyph(nm, [layer("m01", [SQUARE])]))
    else:
        gl.append(glyph(nm, [layer("m01", [comp("g%06d" % (i+1), (1,0))])]))
open(out, "w").write(font(gl))
