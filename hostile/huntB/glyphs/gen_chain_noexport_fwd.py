import sys
from glib import *
# like gen_chain_noexport.py but names sort in dependency order: g000000 = square, g(i) references g(i-1)
N = int(sys.argv[1]); out = sys.argv[2]
gl = []
for i in range(N):
    nm = "g%06d" % i
    if i == 0:
        gl.append(glyph(nm, [layer("m01", [SQUARE])], extra="export = 0;\n"))
    else:
        gl.append(glyph(nm, [layer("m01", [comp("g%06d" % (i-1), (1,0))])], extra="export = 0;\n"))
gl.append(glyph("A", [layer("m01", [comp("g%06d" % (N-1), (0,0))])], unicode=65))
open(out, "w").write(font(gl))
