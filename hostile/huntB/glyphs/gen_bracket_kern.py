import sys
from glib import *
# two glyphs A, B each with K distinct bracket layers (axisRules min = 401+k) on both masters, and one kern pair A B.
K = int(sys.argv[1]); out = sys.argv[2]
masters = (("m01", 400), ("m02", 700))
def g(name, uni):
    ls = [layer("m01", [SQUARE]), layer("m02", [SQUARE])]
    for k in range(K):
        for m in ("m01", "m02"):
            ls.append(layer('"%s_%s_%d"' % (name, m, k), [SQUARE], extra='associatedMasterId = %s;\nattr = {\naxisRules = (\n{\nmin = %d;\n}\n);\n};\n' % (m, 401 + k)))
    return glyph(name, ls, unicode=uni)
kern = 'kerningLTR = {\nm01 = {\nA = {\nB = -50;\n};\n};\nm02 = {\nA = {\nB = -60;\n};\n};\n};\n'
open(out, "w").write(font([g("A", 65), g("B", 66)], masters=masters, extra=kern))
