import sys
from glib import *
# doubling DAG whose leaf is an EMPTY glyph: e00 = 2 x e01, ..., e(N-1) = empty (no shapes).
N = int(sys.argv[1]); out = sys.argv[2]
gl = []
for i in range(N):
    nm = "e%03d" % i
    if i == N-1:
        gl.append(glyph(nm, [layer("m01", [])]))
    else:
        r = "e%03d" % (i+1)
        gl.append(glyph(nm, [layer("m01", [comp(r, (1,0)), comp(r, (0,1))])]))
open(out, "w").write(font(gl))
