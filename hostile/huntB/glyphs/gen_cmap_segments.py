import sys
from glib import *
# N empty glyphs mapped to every other BMP codepoint starting at U+1000 => N cmap format-4 segments
N = int(sys.argv[1]); out = sys.argv[2]
gl = [glyph("c%05d" % i, [layer("m01", [])], unicode=0x1000 + 2*i) for i in range(N)]
open(out, "w").write(font(gl))
