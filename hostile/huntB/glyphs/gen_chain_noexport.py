import sys
from glib import *
# chain of N NON-EXPORTED glyphs g000000 -> g000001 -> ... -> square, plus exported "A" that references g000000
N = int(sys.argv[1]); out = sys.argv[2]
gl = []
for i in range(N):
    nm = "g%06d" % i
    if i == N-1:
        gl.append(glyph(nm, [layer("m01", [SQUARE])], extra="export = 0;\n"))
    else:
        gl.append(glyph(nm, [layer("m01", [comp("g%06d" % (i+1), (1,0))])], extra="export = 0;\n"))
gl.append(glyph("A", [layer("m01", [comp("g000000", (0,0))])], unicode=65))
open(out, "w").write(font(gl))
