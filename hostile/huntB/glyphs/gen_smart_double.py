import sys
from glib import *
# Smart-component doubling: s000 = 2 x s001 (smart), s001 = 2 x s002 (smart), ..., s(N-1) = smart glyph with one square.
# Every s-glyph has a smart axis "w" and two layers (poles 1 and 2) so it is really interpolated.
N = int(sys.argv[1]); out = sys.argv[2]
PARTS = 'partsSettings = (\n{\nbottomValue = 0;\nname = w;\ntopValue = 100;\n}\n);\n'
gl = []
for i in range(N):
    nm = "s%03d" % i
    if i == N-1:
        shapes = [SQUARE]
    else:
        r = "s%03d" % (i+1)
        shapes = [comp(r, (1,0), "piece = {\nw = 50;\n};\n"), comp(r, (0,1), "piece = {\nw = 50;\n};\n")]
    l1 = layer("m01", shapes, extra="partSelection = {\nw = 1;\n};\n")
    l2 = layer('"alt%d"' % i, shapes, extra="associatedMasterId = m01;\nname = alt;\npartSelection = {\nw = 2;\n};\n")
    gl.append(glyph(nm, [l1, l2], extra=PARTS if True else ""))
# a plain user glyph so something exports
gl.append(glyph("A", [layer("m01", [comp("s000", (0,0), "piece = {\nw = 50;\n};\n")])], unicode=65))
open(out, "w").write(font(gl))
