# derived from glyphs3/CornerComponents.glyphs: the glyph whose corner sits on a cubic (hint origin (0,2)) gets
# its outline multiplied by K and a hint scale of (K,K)
import sys, re
src = open("/tmp/wt-huntB/resources/testdata/glyphs3/CornerComponents.glyphs").read()
K = float(sys.argv[1]); out = sys.argv[2]
a = src.index("origin = (0,2);")
a = src.rindex("glyphname", 0, a)
b = src.index("glyphname", a + 10)
g = src[a:b]
g = g.replace("origin = (0,2);", "origin = (0,2);\nscale = (%r,%r);" % (K, K))
def mul(m):
    return "(%d,%d,%s)" % (int(m.group(1)) * K + 7, int(m.group(2)) * K + 3, m.group(3))
g = re.sub(r"\((-?\d+),(-?\d+),([a-z]+)\)", mul, g)
open(out, "w").write(src[:a] + g + src[b:])
