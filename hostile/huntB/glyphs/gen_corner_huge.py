# derived from glyphs3/CornerComponents.glyphs: glyph ac_scale gets hint scale (2e10,2e10) and a 1e12-sized outline
import sys
src = open("/tmp/wt-huntB/resources/testdata/glyphs3/CornerComponents.glyphs").read()
scale = sys.argv[1]; big = sys.argv[2]; out = sys.argv[3]
a = src.index("glyphname = ac_scale;")
b = src.index("glyphname", a + 10)
g = src[a:b]
g = g.replace("scale = (1.2,1.5);", "scale = (%s,%s);" % (scale, scale))
g = g.replace("(38,86,l),\n(302,86,l),\n(412,500,l),\n(148,500,l)", "(0,0,l),\n(%s,0,l),\n(%s,%s,l),\n(0,%s,l)" % (big, big, big, big))
open(out, "w").write(src[:a] + g + src[b:])
