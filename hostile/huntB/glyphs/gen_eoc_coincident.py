import sys
from glib import *
# One glyph with NP closed paths. Each path: cubic "one" S->P, a tiny line P->Q, cubic "two" = reverse(one) shifted by
# (d,-d), tiny line back. Legit coordinates (<= SCALE). eraseOpenCorners (default for .glyphs) intersects one and two.
NP = int(sys.argv[1]); SCALE = float(sys.argv[2]); out = sys.argv[3]; d = 0.01
def path(ox):
    S = (ox, 0.0); c1 = (ox + 0.3*SCALE, 0.4*SCALE); c2 = (ox + 0.6*SCALE, 0.7*SCALE); P = (ox + SCALE, SCALE)
    Q = (P[0]+d, P[1]-d); t1 = (c2[0]+d, c2[1]-d); t2 = (c1[0]+d, c1[1]-d); E = (S[0]+d, S[1]-d)
    f = lambda p, t: "(%r,%r,%s)" % (p[0], p[1], t)
    nodes = [f(c1,"o"), f(c2,"o"), f(P,"c"), f(Q,"l"), f(t1,"o"), f(t2,"o"), f(E,"c"), f(S,"l")]
    return '{\nclosed = 1;\nnodes = (\n%s\n);\n}' % ",\n".join(nodes)
gl = [glyph("A", [layer("m01", [path(10.0*i) for i in range(NP)])], unicode=65)]
open(out, "w").write(font(gl))
