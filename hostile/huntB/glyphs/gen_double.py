import sys
from glib import *
# doubling DAG: d00 = 2 x d01, d01 = 2 x d02, ..., d(N-1) = square.  No cycle; depth N-1.
N = int(sys.argv[1]); out = sys.argv[2]
gl = []
for i in range(N):
    nm = "d%03d" % i
    if i == N-1:
        gl.append(glyph(nm, [layer("m01", [SQUARE])]))
    else:
        r = "d%03d" % (i+1)
        gl.append(glyph(nm, [layer("m01", [comp(r, (1,0)), comp(r, (0,1))])]))
open(out, "w").write(font(gl))
