#!/usr/bin/env python3
"""baseline.ufo with a fontinfo string key of N chars. usage: gen_longinfo.py out.ufo key N"""
import sys, os, shutil
out, key, n = sys.argv[1], sys.argv[2], int(sys.argv[3])
here = os.path.dirname(os.path.abspath(__file__))
if os.path.exists(out): shutil.rmtree(out)
shutil.copytree(os.path.join(here, '..', 'baseline.ufo'), out)
base = {'unitsPerEm': '<integer>1000</integer>', 'familyName': '<string>Duck</string>', 'styleName': '<string>Regular</string>'}
base[key] = '<string>%s</string>' % ('x' * n)
open(os.path.join(out, 'fontinfo.plist'), 'w').write('<?xml version="1.0" encoding="UTF-8"?>\n<plist version="1.0"><dict>%s</dict></plist>\n' % ''.join('<key>%s</key>%s' % kv for kv in base.items()))
