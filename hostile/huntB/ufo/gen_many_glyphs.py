#!/usr/bin/env python3
"""baseline.ufo (no features/lib) plus N empty glyphs e000000... usage: gen_many_glyphs.py out.ufo N"""
import sys, os, shutil
out, n = sys.argv[1], int(sys.argv[2])
here = os.path.dirname(os.path.abspath(__file__))
if os.path.exists(out): shutil.rmtree(out)
shutil.copytree(os.path.join(here, '..', 'baseline.ufo'), out)
os.remove(os.path.join(out, 'features.fea')); os.remove(os.path.join(out, 'lib.plist'))
gd = os.path.join(out, 'glyphs')
names = ['e%06d' % i for i in range(n)]
for nm in names:
    open(os.path.join(gd, nm + '.glif'), 'w').write('<?xml version="1.0" encoding="UTF-8"?>\n<glyph name="%s" format="2"><advance width="10"/><outline></outline></glyph>\n' % nm)
with open(os.path.join(gd, 'contents.plist'), 'w') as f:
    f.write('<?xml version="1.0" encoding="UTF-8"?>\n<plist version="1.0"><dict>\n')
    for nm in ['bar', 'plus', 'space', 'element_of', 'skip_me'] + names:
        f.write('<key>%s</key><string>%s.glif</string>\n' % (nm, nm))
    f.write('</dict></plist>\n')
