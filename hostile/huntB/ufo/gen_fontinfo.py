#!/usr/bin/env python3
"""baseline.ufo with extra raw plist key/value XML appended to fontinfo.plist dict.
usage: gen_fontinfo.py out.ufo '<key>..</key><..>' [--no-upem]"""
import sys, os, shutil
out, extra = sys.argv[1], sys.argv[2]
here = os.path.dirname(os.path.abspath(__file__))
if os.path.exists(out): shutil.rmtree(out)
shutil.copytree(os.path.join(here, '..', 'baseline.ufo'), out)
upem = '' if '--no-upem' in sys.argv else '<key>unitsPerEm</key><integer>1000</integer>'
open(os.path.join(out, 'fontinfo.plist'), 'w').write('<?xml version="1.0" encoding="UTF-8"?>\n<plist version="1.0"><dict>%s<key>familyName</key><string>Duck</string><key>styleName</key><string>Regular</string>%s</dict></plist>\n' % (upem, extra))
