#!/usr/bin/env python3
"""baseline.ufo; 'plus' is a ligature with anchors top_1 and <marker>; 'bar' is a mark with _top.
usage: gen_anchor_marker.py out.ufo MARKER_ANCHOR_NAME"""
import sys, os, shutil
out, marker = sys.argv[1], sys.argv[2]
here = os.path.dirname(os.path.abspath(__file__))
if os.path.exists(out): shutil.rmtree(out)
shutil.copytree(os.path.join(here, '..', 'baseline.ufo'), out)
os.remove(os.path.join(out, 'features.fea'))
SQ = '<contour><point x="0" y="0" type="line"/><point x="100" y="0" type="line"/><point x="100" y="100" type="line"/></contour>'
def g(name, uni, anchors):
    open(os.path.join(out, 'glyphs', name + '.glif'), 'w').write('<?xml version="1.0" encoding="UTF-8"?>\n<glyph name="%s" format="2"><advance width="500"/><unicode hex="%s"/>%s<outline>%s</outline></glyph>\n' % (name, uni, anchors, SQ))
g('plus', '002B', '<anchor name="top_1" x="10" y="10"/><anchor name="%s" x="20" y="10"/>' % marker)
g('bar', '007C', '<anchor name="_top" x="10" y="10"/>')
open(os.path.join(out, 'lib.plist'), 'w').write('<?xml version="1.0" encoding="UTF-8"?>\n<plist version="1.0"><dict><key>public.openTypeCategories</key><dict><key>plus</key><string>ligature</string><key>bar</key><string>mark</string></dict></dict></plist>\n')
