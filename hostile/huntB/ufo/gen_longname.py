#!/usr/bin/env python3
"""baseline.ufo (no features) where glyph 'plus' is renamed to a name of N chars. usage: gen_longname.py out.ufo N [char]"""
import sys, os, shutil
out, n = sys.argv[1], int(sys.argv[2])
ch = sys.argv[3] if len(sys.argv) > 3 else 'a'
here = os.path.dirname(os.path.abspath(__file__))
if os.path.exists(out): shutil.rmtree(out)
shutil.copytree(os.path.join(here, '..', 'baseline.ufo'), out)
os.remove(os.path.join(out, 'features.fea')); os.remove(os.path.join(out, 'lib.plist'))
name = ch * n
p = os.path.join(out, 'glyphs', 'contents.plist')
s = open(p).read(); open(p, 'w').write(s.replace('<key>plus</key>', '<key>%s</key>' % name))
g = os.path.join(out, 'glyphs', 'plus.glif')
s = open(g).read(); open(g, 'w').write(s.replace('name="plus"', 'name="%s"' % name))
