#!/usr/bin/env python3
"""baseline.ufo + eraseOpenCorners filter; glyph 'plus' = closed contour: cubic A->B, line B->A, the SAME cubic A->B, closing line B->A.
usage: gen_eoc.py out.ufo S [N]   (S = coordinate magnitude)"""
import sys, os, shutil
out, S = sys.argv[1], float(sys.argv[2])
N = int(sys.argv[3]) if len(sys.argv) > 3 else 1  # number of copies of the contour
here = os.path.dirname(os.path.abspath(__file__))
if os.path.exists(out): shutil.rmtree(out)
shutil.copytree(os.path.join(here, '..', 'baseline.ufo'), out)
pts = [(0, 0, 'line'), (0, S / 2, None), (S / 2, S, None), (S, S, 'curve'), (0, 0, 'line'), (0, S / 2, None), (S / 2, S, None), (S, S, 'curve')]
body = ''.join('<point x="%r" y="%r"%s/>' % (x, y, ' type="%s"' % t if t else '') for x, y, t in pts)
open(os.path.join(out, 'glyphs', 'plus.glif'), 'w').write('<?xml version="1.0" encoding="UTF-8"?>\n<glyph name="plus" format="2"><advance width="500"/><unicode hex="002B"/><outline>%s</outline></glyph>\n' % ('<contour>%s</contour>' % body * N))
open(os.path.join(out, 'lib.plist'), 'w').write('<?xml version="1.0" encoding="UTF-8"?>\n<plist version="1.0"><dict><key>com.github.googlei18n.ufo2ft.filters</key><array><dict><key>name</key><string>eraseOpenCorners</string><key>pre</key><true/></dict></array></dict></plist>\n')
