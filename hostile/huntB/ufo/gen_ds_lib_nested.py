#!/usr/bin/env python3
"""static.designspace with <lib><dict><key>k</key> followed by N nested <array> elements.
usage: gen_ds_lib_nested.py out.designspace N [array|dict]"""
import sys
out, n = sys.argv[1], int(sys.argv[2])
kind = sys.argv[3] if len(sys.argv) > 3 else 'array'
src = open('/tmp/wt-huntB/resources/testdata/static.designspace').read()
src = src.replace('filename="Static-Regular.ufo"', 'filename="/tmp/wt-huntB/resources/testdata/Static-Regular.ufo"')
if kind == 'array':
    nested = '<array>' * n + '</array>' * n
else:
    nested = '<dict><key>k</key>' * n + '<true/>' + '</dict>' * n
src = src.replace('<key>public.skipExportGlyphs</key>', '<key>nested</key>' + nested + '\n<key>public.skipExportGlyphs</key>')
open(out, 'w').write(src)
