#!/usr/bin/env python3
"""Generate a UFO derived from ../baseline.ufo with a non-cyclic component graph.
usage: gen_components.py <out.ufo> <mode> <depth> [--contour-on-root] [--filters f1,f2] [--skip-inner] [--anchors]
 mode=chain  : c0 -> c1 -> ... -> c<depth> (leaf has a contour)
 mode=diamond: c_i has TWO components, both c_{i+1} (offset differently); leaf has a contour
"""
import sys, os, shutil
out, mode, depth = sys.argv[1], sys.argv[2], int(sys.argv[3])
opts = sys.argv[4:]
contour_on_root = '--contour-on-root' in opts
skip_inner = '--skip-inner' in opts
anchors = '--anchors' in opts
filters = []
for i, o in enumerate(opts):
    if o == '--filters':
        filters = opts[i+1].split(',')
here = os.path.dirname(os.path.abspath(__file__))
if os.path.exists(out):
    shutil.rmtree(out)
shutil.copytree(os.path.join(here, '..', 'baseline.ufo'), out)
os.remove(os.path.join(out, 'features.fea'))
gd = os.path.join(out, 'glyphs')
names = ['c%06d' % i for i in range(depth + 1)]
SQUARE = '<contour><point x="0" y="0" type="line"/><point x="100" y="0" type="line"/><point x="100" y="100" type="line"/><point x="0" y="100" type="line"/></contour>'
for i, n in enumerate(names):
    body = ''
    if i == depth:
        body = SQUARE
    else:
        nxt = names[i + 1]
        body = '<component base="%s" xOffset="1"/>' % nxt
        if mode == 'diamond':
            body += '<component base="%s" xOffset="7" yOffset="3"/>' % nxt
        if i == 0 and contour_on_root:
            body += SQUARE
    uni = '<unicode hex="%04X"/>' % (0xE000 + i) if i == 0 else ''
    anc = '<anchor name="top" x="10" y="10"/>' if anchors and i == depth else ''
    with open(os.path.join(gd, n + '.glif'), 'w') as f:
        f.write('<?xml version="1.0" encoding="UTF-8"?>\n<glyph name="%s" format="2"><advance width="500"/>%s%s<outline>%s</outline></glyph>\n' % (n, uni, anc, body))
base = ['bar', 'plus', 'space', 'element_of', 'skip_me']
with open(os.path.join(gd, 'contents.plist'), 'w') as f:
    f.write('<?xml version="1.0" encoding="UTF-8"?>\n<plist version="1.0"><dict>\n')
    for n in base + names:
        f.write('<key>%s</key><string>%s.glif</string>\n' % (n, n))
    f.write('</dict></plist>\n')
with open(os.path.join(out, 'lib.plist'), 'w') as f:
    f.write('<?xml version="1.0" encoding="UTF-8"?>\n<plist version="1.0"><dict>\n')
    f.write('<key>public.skipExportGlyphs</key><array><string>skip_me</string>')
    if skip_inner:
        for n in names[1:]:
            f.write('<string>%s</string>' % n)
    f.write('</array>\n')
    if filters:
        f.write('<key>com.github.googlei18n.ufo2ft.filters</key><array>')
        for fl in filters:
            f.write('<dict><key>name</key><string>%s</string><key>pre</key><true/></dict>' % fl)
        f.write('</array>\n')
    f.write('</dict></plist>\n')
