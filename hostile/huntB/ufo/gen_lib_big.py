#!/usr/bin/env python3
"""baseline.ufo with public.glyphOrder / skipExportGlyphs / postscriptNames of N missing names. usage: gen_lib_big.py out.ufo N"""
import sys, os, shutil
out, n = sys.argv[1], int(sys.argv[2])
here = os.path.dirname(os.path.abspath(__file__))
if os.path.exists(out): shutil.rmtree(out)
shutil.copytree(os.path.join(here, '..', 'baseline.ufo'), out)
with open(os.path.join(out, 'lib.plist'), 'w') as f:
    f.write('<?xml version="1.0" encoding="UTF-8"?>\n<plist version="1.0"><dict><key>public.glyphOrder</key><array>')
    for i in range(n): f.write('<string>missing%d</string>' % i)
    f.write('</array><key>public.skipExportGlyphs</key><array>')
    for i in range(n): f.write('<string>missing%d</string>' % i)
    f.write('</array><key>public.postscriptNames</key><dict>')
    for i in range(n): f.write('<key>missing%d</key><string>uni%d</string>' % (i, i))
    f.write('</dict></dict></plist>\n')
