#!/usr/bin/env python3
"""Copy wght_var.designspace + its two UFOs into u_var_<name>/ and replace glyphs/plus.glif outline in Regular / Bold.
usage: gen_var.py name '<regular outline xml>' '<bold outline xml>' [extra-reg-glif-xml] [extra-bold-glif-xml]"""
import sys, os, shutil
name, reg, bold = sys.argv[1:4]
xr = sys.argv[4] if len(sys.argv) > 4 else ''
xb = sys.argv[5] if len(sys.argv) > 5 else ''
TD = '/tmp/wt-huntB/resources/testdata/'
d = 'u_var_' + name
if os.path.exists(d): shutil.rmtree(d)
os.makedirs(d)
for u in ('WghtVar-Regular.ufo', 'WghtVar-Bold.ufo'):
    shutil.copytree(TD + u, os.path.join(d, u))
    f = os.path.join(d, u, 'features.fea')
    if os.path.exists(f): os.remove(f)
shutil.copy(TD + 'wght_var.designspace', os.path.join(d, 'v.designspace'))
G = '<?xml version="1.0" encoding="UTF-8"?>\n<glyph name="plus" format="2"><advance width="500"/><unicode hex="002B"/>%s<outline>%s</outline></glyph>\n'
open(os.path.join(d, 'WghtVar-Regular.ufo/glyphs/plus.glif'), 'w').write(G % (xr, reg))
open(os.path.join(d, 'WghtVar-Bold.ufo/glyphs/plus.glif'), 'w').write(G % (xb, bold))
