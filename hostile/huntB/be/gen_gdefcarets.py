"""b_gdefcarets.ufo: 12 glyphs; features.fea GDEF table gives 10 glyphs 5000 distinct ligature carets each
(LigCaretList needs > 64 KiB behind 16-bit offsets -> GDEF cannot be packed)."""
from ufogen import *
glyphs = {"space": glif("space", unicodes=[0x20]), "A": glif("A", contours=BOX, unicodes=[0x41])}
names = [f"l{i}" for i in range(10)]
for n in names:
    glyphs[n] = glif(n, contours=BOX)
lines = []
for i, n in enumerate(names):
    vals = " ".join(str(-30000 + i * 5000 + k) for k in range(5000))
    lines.append(f"    LigatureCaretByPos {n} {vals};")
fea = "languagesystem DFLT dflt;\ntable GDEF {\n" + "\n".join(lines) + "\n} GDEF;\n"
write_ufo("b_gdefcarets.ufo", glyphs, fea=fea)
