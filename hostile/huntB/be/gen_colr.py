"""b_colr_<N>.ufo: 3 glyphs; lib colorPalettes = 1 palette with 2 colours; colorLayers: glyph A -> N layers [B, i%2]"""
import sys
from ufogen import *
n = int(sys.argv[1])
glyphs = {"space": glif("space", unicodes=[0x20]), "A": glif("A", contours=BOX, unicodes=[0x41]), "B": glif("B", contours=BOX, unicodes=[0x42])}
lib = {"com.github.googlei18n.ufo2ft.colorPalettes": [[[1.0, 0.0, 0.0, 1.0], [0.0, 1.0, 0.0, 1.0]]],
       "com.github.googlei18n.ufo2ft.colorLayers": {"A": [["B", i % 2] for i in range(n)]}}
write_ufo(f"b_colr_{n}.ufo", glyphs, lib=lib)
