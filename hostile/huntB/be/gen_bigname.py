"""b_bigname_<N>.ufo: familyName of N chars"""
import sys
from ufogen import *
n = int(sys.argv[1])
glyphs = {"space": glif("space", unicodes=[0x20]), "A": glif("A", contours=BOX, unicodes=[0x41])}
write_ufo(f"b_bigname_{n}.ufo", glyphs, fontinfo={"familyName": "F" * n})
