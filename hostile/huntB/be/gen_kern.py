"""b_kern_<G>_<P>.ufo: G glyphs over several scripts, P random glyph-glyph kerning pairs + group kerning"""
import sys, random
from ufogen import *
g, p = int(sys.argv[1]), int(sys.argv[2])
random.seed(1)
bases = [0x100, 0x410, 0x1F00, 0xFB1D, 0x627, 0x2460, 0x905, 0x2200]
glyphs = {"space": glif("space", unicodes=[0x20])}
names = []
for i in range(g):
    cp = bases[i % len(bases)] + i // len(bases)
    n = f"g{i}"
    names.append(n)
    glyphs[n] = glif(n, contours=BOX, unicodes=[cp])
kerning = {}
cnt = 0
while cnt < p:
    a, b = random.choice(names), random.choice(names)
    if b in kerning.setdefault(a, {}):
        continue
    kerning[a][b] = random.randint(-100, 100) or 5
    cnt += 1
groups = {}
ng = g // 10
for k in range(ng):
    groups[f"public.kern1.k{k}"] = names[k * 10:(k + 1) * 10]
    groups[f"public.kern2.k{k}"] = names[k * 10:(k + 1) * 10]
for k in range(ng):
    for l in range(ng):
        kerning.setdefault(f"public.kern1.k{k}", {})[f"public.kern2.k{l}"] = ((k * 7 + l) % 50) - 25 or 3
write_ufo(f"b_kern_{g}_{p}.ufo", glyphs, kerning=kerning, groups=groups, fea="languagesystem DFLT dflt;\nlanguagesystem latn dflt;\nlanguagesystem cyrl dflt;\nlanguagesystem arab dflt;\n")
