"""b_colrv1_<N>.glyphs: derived from resources/testdata/glyphs3/COLRv1-gradient.glyphs: a single glyph A whose colour layer has N gradient shapes
(PaintColrLayers.numLayers is a u8)"""
import sys
n = int(sys.argv[1])
shapes = []
for i in range(n):
    x = (i % 50) * 12; y = (i // 50) * 12
    shapes.append("""{
attr = {
gradient = {
colors = (
(
(255,0,0,255),
0
),
(
(0,%d,255,255),
1
)
);
end = (0.9,0.9);
start = (0.1,0.1);
};
};
closed = 1;
nodes = (
(%d,%d,l),
(%d,%d,l),
(%d,%d,l),
(%d,%d,l)
);
}""" % (i % 256, x, y, x + 10, y, x + 10, y + 10, x, y + 10))
src = """{
.appVersion = "3343";
.formatVersion = 3;
familyName = "New Font";
fontMaster = (
{
id = m01;
metricValues = (
{
over = 16;
pos = 800;
},
{
over = 16;
pos = 700;
},
{
over = 16;
pos = 500;
},
{
over = -16;
},
{
over = -16;
pos = -200;
},
{
}
);
name = Regular;
}
);
glyphs = (
{
glyphname = A;
layers = (
{
attr = {
color = 1;
};
layerId = m01;
shapes = (
%s
);
width = 600;
}
);
unicode = 65;
}
);
unitsPerEm = 1000;
versionMajor = 1;
versionMinor = 0;
}
""" % ",\n".join(shapes)
open(f"b_colrv1_{n}.glyphs", "w").write(src)
