from ufogen import *
# no codepoints at all
write_ufo("b_nocmap.ufo", {"a": glif("a", contours=BOX), "b": glif("b", contours=BOX)})
# no glyphs at all
write_ufo("b_noglyphs.ufo", {})
# only non-BMP codepoints
write_ufo("b_nonbmp.ufo", {"a": glif("a", contours=BOX, unicodes=[0x1F600]), "b": glif("b", contours=BOX, unicodes=[0x10FFFF])})
# .notdef with codepoint and components pointing at itself is known; glyph named like a path
write_ufo("b_names.ufo", {"space": glif("space", unicodes=[0x20]), "../../x": glif("../../x", contours=BOX, unicodes=[0x41]), "a b": glif("a b", contours=BOX, unicodes=[0x42]), "": glif("", contours=BOX, unicodes=[0x43])})
