"""b_chain_<N>.ufo: non-cyclic component chain g0 (simple) <- g1 <- ... <- gN ; b_double_<N>.ufo: g_i = 2 x g_{i-1}"""
import sys
from ufogen import *
kind, n = sys.argv[1], int(sys.argv[2])
glyphs = {"space": glif("space", unicodes=[0x20]), "g0": glif("g0", contours=BOX, unicodes=[0x41])}
for i in range(1, n + 1):
    if kind == "chain":
        comps = [(f"g{i-1}", {"xOffset": 1})]
    else:
        comps = [(f"g{i-1}", {"xOffset": 1}), (f"g{i-1}", {"yOffset": 1})]
    glyphs[f"g{i}"] = glif(f"g{i}", components=comps)
write_ufo(f"b_{kind}_{n}.ufo", glyphs)
