"""Tiny helper to write a UFO3 from python dicts. Used by gen_*.py next to it."""
import os, shutil
from xml.sax.saxutils import escape

PL_HEAD = ("<?xml version='1.0' encoding='UTF-8'?>\n"
           '<!DOCTYPE plist PUBLIC "-//Apple//DTD PLIST 1.0//EN" "http://www.apple.com/DTDs/PropertyList-1.0.dtd">\n'
           '<plist version="1.0">\n')


def pl(v, ind=1):
    s = "  " * ind
    if isinstance(v, bool):
        return f"{s}<{'true' if v else 'false'}/>\n"
    if isinstance(v, int):
        return f"{s}<integer>{v}</integer>\n"
    if isinstance(v, float):
        return f"{s}<real>{v!r}</real>\n"
    if isinstance(v, Raw):
        return f"{s}{v.s}\n"
    if isinstance(v, str):
        return f"{s}<string>{escape(v)}</string>\n"
    if isinstance(v, (list, tuple)):
        return f"{s}<array>\n" + "".join(pl(x, ind + 1) for x in v) + f"{s}</array>\n"
    if isinstance(v, dict):
        out = f"{s}<dict>\n"
        for k, x in v.items():
            out += f"{s}  <key>{escape(k)}</key>\n" + pl(x, ind + 1)
        return out + f"{s}</dict>\n"
    raise TypeError(v)


class Raw:
    """raw plist xml fragment, e.g. Raw('<real>1e400</real>')"""
    def __init__(self, s):
        self.s = s


def plist(v):
    return PL_HEAD + pl(v) + "</plist>\n"


def fname(name):
    # good enough user-name-to-filename: uppercase letters get '_' appended
    out = ""
    for ch in name:
        if ch.isupper():
            out += ch + "_"
        elif ch in '"*+/:<>?[\\]|' or ord(ch) < 32:
            out += "_"
        else:
            out += ch
    return out[:200] + ".glif"


def glif(name, width=500, unicodes=(), contours=(), components=(), anchors=(), extra="", height=None):
    """contours: list of list of (x,y,type) ; components: list of (base, dict-of-attrs) ; anchors: (name,x,y)"""
    qname = escape(name, {'"': '&quot;'})
    o = ["<?xml version='1.0' encoding='UTF-8'?>\n<glyph name=\"" + qname + "\" format=\"2\">\n"]
    if height is None:
        o.append(f'  <advance width="{width}"/>\n')
    else:
        o.append(f'  <advance width="{width}" height="{height}"/>\n')
    for u in unicodes:
        o.append(f'  <unicode hex="{u if isinstance(u, str) else "%04X" % u}"/>\n')
    for a in anchors:
        o.append(f'  <anchor name="{a[0]}" x="{a[1]}" y="{a[2]}"/>\n')
    o.append("  <outline>\n")
    for c in contours:
        o.append("    <contour>\n")
        for p in c:
            if len(p) == 2 or p[2] is None:
                o.append(f'      <point x="{p[0]}" y="{p[1]}"/>\n')
            else:
                o.append(f'      <point x="{p[0]}" y="{p[1]}" type="{p[2]}"/>\n')
        o.append("    </contour>\n")
    for base, attrs in components:
        a = "".join(f' {k}="{v}"' for k, v in attrs.items())
        o.append(f'    <component base="{base}"{a}/>\n')
    o.append("  </outline>\n")
    o.append(extra)
    o.append("</glyph>\n")
    return "".join(o)


BOX = [[(100, 0, "line"), (200, 0, "line"), (200, 100, "line"), (100, 100, "line")]]


def write_ufo(path, glyphs, fontinfo=None, lib=None, fea=None, kerning=None, groups=None, order=None):
    """glyphs: dict name -> glif xml text (insertion order = glyph order unless order given)"""
    if os.path.exists(path):
        shutil.rmtree(path)
    os.makedirs(os.path.join(path, "glyphs"))
    fi = {"unitsPerEm": 1000, "familyName": "Duck", "styleName": "Regular", "capHeight": 720.0, "xHeight": 510.0}
    if fontinfo:
        fi.update(fontinfo)
    fi = {k: v for k, v in fi.items() if v is not None}
    w = lambda p, s: open(os.path.join(path, p), "w", encoding="utf-8").write(s)
    w("metainfo.plist", plist({"creator": "gen", "formatVersion": 3}))
    w("layercontents.plist", plist([["public.default", "glyphs"]]))
    w("fontinfo.plist", plist(fi))
    l = {"public.glyphOrder": list(order if order is not None else glyphs.keys())}
    if lib:
        l.update(lib)
    w("lib.plist", plist(l))
    contents = {}
    used = set()
    for i, (name, xml) in enumerate(glyphs.items()):
        fn = fname(name)
        if fn.lower() in used:
            fn = f"g{i}_" + fn
        used.add(fn.lower())
        contents[name] = fn
        w(os.path.join("glyphs", fn), xml)
    w("glyphs/contents.plist", plist(contents))
    if fea is not None:
        w("features.fea", fea)
    if kerning is not None:
        w("kerning.plist", plist(kerning))
    if groups is not None:
        w("groups.plist", plist(groups))
