"""assorted small UFOs derived from baseline: weird advances / codepoints"""
from ufogen import *
def base():
    return {"space": glif("space", unicodes=[0x20]), "A": glif("A", contours=BOX, unicodes=[0x41])}
g = base(); g["B"] = glif("B", width="1e9", contours=BOX, unicodes=[0x42]); g["C"] = glif("C", width=-500, contours=BOX, unicodes=[0x43]); g["D"] = glif("D", width="NaN", contours=BOX, unicodes=[0x44])
write_ufo("b_adv.ufo", g)
for name, u in [("110000", "110000"), ("D800", "D800"), ("FFFFFFFF", "FFFFFFFF"), ("neg", "-1"), ("FFFF", "FFFF"), ("0", "0000")]:
    g = base(); g["B"] = glif("B", contours=BOX, unicodes=[u])
    write_ufo(f"b_cp_{name}.ufo", g)
# one glyph with 9000 alternating BMP codepoints -> cmap4 > 64K
g = base(); g["B"] = glif("B", contours=BOX, unicodes=[0x100 + 2 * i for i in range(9000)])
write_ufo("b_cp_many.ufo", g)
# two glyphs claim same codepoint
g = base(); g["B"] = glif("B", contours=BOX, unicodes=[0x41])
write_ufo("b_cp_dup.ufo", g)
