"""b_longname.ufo: baseline-like UFO plus one glyph whose name is 300 chars (post Pascal string length byte wraps)"""
from ufogen import *
long = "a" * 300
glyphs = {"space": glif("space", unicodes=[0x20]), "A": glif("A", contours=BOX, unicodes=[0x41]),
          long: glif(long, contours=BOX, unicodes=[0x42]), "C": glif("C", contours=BOX, unicodes=[0x43])}
write_ufo("b_longname.ufo", glyphs)
# variant: normal glyph names, but public.postscriptNames maps B to a 300-char production name
glyphs = {"space": glif("space", unicodes=[0x20]), "A": glif("A", contours=BOX, unicodes=[0x41]),
          "B": glif("B", contours=BOX, unicodes=[0x42]), "C": glif("C", contours=BOX, unicodes=[0x43])}
write_ufo("b_longpsname.ufo", glyphs, lib={"public.postscriptNames": {"B": "b" * 300}})
