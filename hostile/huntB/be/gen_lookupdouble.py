"""b_lookupdouble_<N>.ufo: like b_lookupchain but each contextual lookup invokes the previous one at two positions (DAG with 2^N paths)."""
import sys
from ufogen import *
n = int(sys.argv[1])
glyphs = {"space": glif("space", unicodes=[0x20]), "a": glif("a", contours=BOX, unicodes=[0x61]),
          "b": glif("b", contours=BOX, unicodes=[0x62]), "c": glif("c", contours=BOX)}
fea = ["languagesystem DFLT dflt;", "languagesystem latn dflt;", "lookup L0 { sub a by c; } L0;"]
for i in range(1, n + 1):
    fea.append(f"lookup L{i} {{ sub a' lookup L{i-1} a' lookup L{i-1}; }} L{i};")
fea.append(f"feature calt {{ lookup L{n}; }} calt;")
write_ufo(f"b_lookupdouble_{n}.ufo", glyphs, fea="\n".join(fea) + "\n", kerning={"a": {"b": -50}})
