"""b_lookupchain_<N>.ufo: baseline-like UFO with kerning.plist (a b -50) and a features.fea holding a chain of N contextual GSUB lookups,
L_i = 'sub a' lookup L_{i-1};' (non-cyclic). Backend computes a GSUB glyph closure for kerning script classification."""
import sys
from ufogen import *
n = int(sys.argv[1])
glyphs = {"space": glif("space", unicodes=[0x20]), "a": glif("a", contours=BOX, unicodes=[0x61]),
          "b": glif("b", contours=BOX, unicodes=[0x62]), "c": glif("c", contours=BOX)}
fea = ["languagesystem DFLT dflt;", "languagesystem latn dflt;", "lookup L0 { sub a by c; } L0;"]
for i in range(1, n + 1):
    fea.append(f"lookup L{i} {{ sub a' lookup L{i-1} b; }} L{i};")
fea.append(f"feature calt {{ lookup L{n}; }} calt;")
write_ufo(f"b_lookupchain_{n}.ufo", glyphs, fea="\n".join(fea) + "\n", kerning={"a": {"b": -50}})
