"""b_compxf_<tag>.ufo: composite glyph B = component A with odd transform values"""
from ufogen import *
cases = {"nan": {"xScale": "NaN"}, "inf": {"xScale": "inf", "yOffset": "-inf"}, "big": {"xScale": "1e308", "xyScale": "1e308", "xOffset": "1e308"},
         "off": {"xOffset": "1e30", "yOffset": "-1e30"}, "zero": {"xScale": 0, "yScale": 0}, "two": {"xScale": 2.0, "yScale": -2.0, "xyScale": 1.99999, "yxScale": -1.99999}}
for tag, attrs in cases.items():
    glyphs = {"space": glif("space", unicodes=[0x20]), "A": glif("A", contours=BOX, unicodes=[0x41]),
              "B": glif("B", components=[("A", attrs), ("A", {"xOffset": 10})], unicodes=[0x42]),
              "C": glif("C", components=[("B", attrs)], unicodes=[0x43])}
    write_ufo(f"b_compxf_{tag}.ufo", glyphs)
