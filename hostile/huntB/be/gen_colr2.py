from ufogen import *
def g():
    return {"space": glif("space", unicodes=[0x20]), "A": glif("A", contours=BOX, unicodes=[0x41]), "B": glif("B", contours=BOX, unicodes=[0x42])}
P = "com.github.googlei18n.ufo2ft.colorPalettes"; L = "com.github.googlei18n.ufo2ft.colorLayers"
red = [1.0, 0.0, 0.0, 1.0]
write_ufo("b_colr_missing.ufo", g(), lib={P: [[red]], L: {"A": [["nonexistent", 0]]}})
write_ufo("b_colr_missingbase.ufo", g(), lib={P: [[red]], L: {"nonexistent": [["B", 0]]}})
write_ufo("b_colr_emptypal.ufo", g(), lib={P: [[]], L: {"A": [["B", 0]]}})
write_ufo("b_colr_nopal.ufo", g(), lib={P: [], L: {"A": [["B", 0]]}})
write_ufo("b_colr_unevenpal.ufo", g(), lib={P: [[red, red], [red]], L: {"A": [["B", 1]]}})
write_ufo("b_colr_ffff.ufo", g(), lib={P: [[red]], L: {"A": [["B", 65535], ["A", 0]]}})
write_ufo("b_colr_self.ufo", g(), lib={P: [[red]], L: {"A": [["A", 0]]}})
write_ufo("b_colr_nanpal.ufo", g(), lib={P: [[[Raw("<real>NaN</real>"), 2.0, -1.0, 1e300]]], L: {"A": [["B", 0]]}})
write_ufo("b_colr_manypal.ufo", g(), lib={P: [[red] * 300 for _ in range(300)], L: {"A": [["B", 0]]}})
