"""b_manyglyphs_<N>.ufo: N empty glyphs g0..gN-1 (plus space)"""
import sys
from ufogen import *
n = int(sys.argv[1])
glyphs = {"space": glif("space", unicodes=[0x20])}
for i in range(n):
    glyphs[f"g{i}"] = glif(f"g{i}", width=500 + (i % 3))
write_ufo(f"b_manyglyphs_{n}.ufo", glyphs)
