#!/bin/bash
# usage: run_ir.sh <name> <source> <pre-step> [extra fontc args...]
# Same limits as ../../run1.sh. Uses --emit-ir with the DEFAULT output (= <build-dir>/font.ttf, i.e. the
# path the Font work is persisted to). <pre-step> is one of:
#   none          nothing
#   svgdir        pre-create <build-dir>/threads.svg as a directory so that --emit-timing fails after the font was persisted
HERE=/tmp/wt-huntB-out
FONTC="${FONTC:-/tmp/wt-huntB/target/debug/fontc}"
name="$1"; src="$2"; pre="$3"; shift 3
bd="$HERE/build/$name.build"; out="$bd/font.ttf"; log="$HERE/build/$name.log"
rm -rf "$bd"; mkdir -p "$bd"
case "$pre" in
  svgdir) mkdir -p "$bd/threads.svg" ;;
esac
( ulimit -v 8000000; timeout -k 5 120 "$FONTC" "$src" --emit-ir --build-dir "$bd" "$@" ) >"$log" 2>&1
st=$?
if [ -s "$out" ]; then state="font present at $out ($(stat -c %s "$out")B)"; else state="no font at output path"; fi
echo "$name: exit=$st :: $state :: $(grep -a -m1 -E 'ERROR|panicked' "$log" | cut -c1-160)"
