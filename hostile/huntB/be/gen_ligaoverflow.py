"""b_ligaoverflow.ufo: 4 glyphs; features.fea has one liga lookup with 4096 ligatures (12 components each, all starting with 'a')
so a single LigatureSet exceeds the 64 KiB reach of its 16-bit offsets -> GSUB cannot be packed."""
import itertools
from ufogen import *
glyphs = {"space": glif("space", unicodes=[0x20]), "a": glif("a", contours=BOX, unicodes=[0x61]),
          "b": glif("b", contours=BOX, unicodes=[0x62]), "X": glif("X", contours=BOX, unicodes=[0x58])}
rules = []
for combo in itertools.product("ab", repeat=12):
    rules.append("    sub a " + " ".join(combo) + " by X;")
fea = "languagesystem DFLT dflt;\nfeature liga {\n" + "\n".join(rules) + "\n} liga;\n"
write_ufo("b_ligaoverflow.ufo", glyphs, fea=fea)
