"""b_manypoints_<N>.ufo: glyph A has one contour with N on-curve line points (N > 65535 wraps endPtsOfContours)"""
import sys
from ufogen import *
n = int(sys.argv[1])
pts = [((i % 1000), (i // 1000) * 3 + (i % 2), "line") for i in range(n)]
glyphs = {"space": glif("space", unicodes=[0x20]), "A": glif("A", contours=[pts], unicodes=[0x41]), "B": glif("B", contours=BOX, unicodes=[0x42])}
write_ufo(f"b_manypoints_{n}.ufo", glyphs)
