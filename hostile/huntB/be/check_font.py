#!/usr/bin/env python3
"""Structural sanity check of a TrueType font without fontTools. Prints problems; exit 1 if any."""
import struct, sys, subprocess

def main(p):
    d = open(p, "rb").read()
    probs = []
    if len(d) < 12:
        print("too short"); return 1
    ver, n = struct.unpack(">IH", d[:6])
    if ver not in (0x00010000, 0x4F54544F):
        probs.append(f"bad sfnt version {ver:#x}")
    T = {}
    for i in range(n):
        tag, cs, off, ln = struct.unpack(">4sIII", d[12 + 16 * i: 28 + 16 * i])
        tag = tag.decode("latin1")
        if off + ln > len(d):
            probs.append(f"table {tag} out of file bounds off={off} len={ln} file={len(d)}")
        T[tag] = d[off:off + ln]
    print("tables:", " ".join(f"{k}({len(v)})" for k, v in T.items()))
    for req in ("head", "hhea", "maxp", "hmtx", "cmap", "name", "post", "OS/2"):
        if req not in T:
            probs.append(f"missing {req}")
    ng = None
    if "maxp" in T:
        ng = struct.unpack(">H", T["maxp"][4:6])[0]
        print("maxp:", struct.unpack(">IH13H", T["maxp"][:32]) if len(T["maxp"]) >= 32 else T["maxp"].hex())
    if "head" in T:
        h = T["head"]
        if len(h) != 54: probs.append(f"head len {len(h)}")
        magic = struct.unpack(">I", h[12:16])[0]
        if magic != 0x5F0F3CF5: probs.append("head magic")
        upem = struct.unpack(">H", h[18:20])[0]
        bbox = struct.unpack(">4h", h[36:44])
        locafmt = struct.unpack(">h", h[50:52])[0]
        print(f"head: upem={upem} bbox={bbox} locafmt={locafmt} flags={struct.unpack('>H', h[16:18])[0]:#x}")
        if not (16 <= upem <= 16384): probs.append(f"head.unitsPerEm {upem} out of 16..16384")
        if "loca" in T and ng is not None:
            L = T["loca"]
            cnt = len(L) // (4 if locafmt else 2)
            if cnt != ng + 1: probs.append(f"loca entries {cnt} != numGlyphs+1 {ng+1}")
            offs = struct.unpack(f">{cnt}{'I' if locafmt else 'H'}", L[:cnt * (4 if locafmt else 2)])
            if not locafmt: offs = [o * 2 for o in offs]
            if any(a > b for a, b in zip(offs, offs[1:])): probs.append("loca not monotonic")
            if offs and offs[-1] > len(T.get("glyf", b"")): probs.append(f"loca end {offs[-1]} > glyf len {len(T.get('glyf', b''))}")
            # parse glyph headers
            g = T.get("glyf", b"")
            for gi, (a, b) in enumerate(zip(offs, offs[1:])):
                if b - a == 0: continue
                if b - a < 10: probs.append(f"glyph {gi} too short"); continue
                nc = struct.unpack(">h", g[a:a + 2])[0]
                if nc >= 0:
                    need = 10 + 2 * nc + 2
                    if b - a < need: probs.append(f"glyph {gi}: {nc} contours do not fit in {b-a} bytes"); continue
                    ends = struct.unpack(f">{nc}H", g[a + 10:a + 10 + 2 * nc])
                    if any(x >= y for x, y in zip(ends, ends[1:])): probs.append(f"glyph {gi}: endPts not increasing")
                    npts = ends[-1] + 1 if ends else 0
                    il = struct.unpack(">H", g[a + 10 + 2 * nc:a + 12 + 2 * nc])[0]
                    pos = a + 12 + 2 * nc + il
                    # flags
                    flags = []
                    while len(flags) < npts:
                        if pos >= b: probs.append(f"glyph {gi}: flags overrun"); break
                        f = g[pos]; pos += 1
                        flags.append(f)
                        if f & 8:
                            if pos >= b: probs.append(f"glyph {gi}: flags overrun"); break
                            r = g[pos]; pos += 1
                            flags.extend([f] * r)
                    else:
                        sz = 0
                        for f in flags[:npts]:
                            sz += 1 if f & 2 else (0 if f & 16 else 2)
                            sz += 1 if f & 4 else (0 if f & 32 else 2)
                        if pos + sz > b: probs.append(f"glyph {gi}: coords overrun need {pos+sz-a} have {b-a}")
                else:
                    pos = a + 10
                    while True:
                        if pos + 4 > b: probs.append(f"glyph {gi}: composite overrun"); break
                        fl, cg = struct.unpack(">HH", g[pos:pos + 4]); pos += 4
                        if cg >= ng: probs.append(f"glyph {gi}: component gid {cg} >= numGlyphs")
                        pos += 4 if fl & 1 else 2
                        if fl & 8: pos += 2
                        elif fl & 0x40: pos += 4
                        elif fl & 0x80: pos += 8
                        if not fl & 0x20: break
                    if pos > b: probs.append(f"glyph {gi}: composite overrun")
    if "hhea" in T and "hmtx" in T and ng is not None:
        nh = struct.unpack(">H", T["hhea"][34:36])[0]
        exp = 4 * nh + 2 * (ng - nh)
        print(f"hhea: numberOfHMetrics={nh} advMax={struct.unpack('>H', T['hhea'][10:12])[0]}")
        if nh > ng or nh == 0: probs.append(f"numberOfHMetrics {nh} vs numGlyphs {ng}")
        if len(T["hmtx"]) != exp: probs.append(f"hmtx len {len(T['hmtx'])} expected {exp}")
    if "post" in T:
        p_ = T["post"]
        v = struct.unpack(">I", p_[:4])[0]
        if v == 0x00020000:
            npg = struct.unpack(">H", p_[32:34])[0]
            if ng is not None and npg != ng: probs.append(f"post numGlyphs {npg} != maxp {ng}")
            idx = struct.unpack(f">{npg}H", p_[34:34 + 2 * npg])
            pos = 34 + 2 * npg
            names = []
            while pos < len(p_):
                l = p_[pos]; pos += 1
                if pos + l > len(p_): probs.append("post: pascal string overruns table"); break
                names.append(p_[pos:pos + l]); pos += l
            mx = max([i for i in idx] + [0])
            if mx >= 258 and mx - 258 >= len(names): probs.append(f"post: name index {mx} but only {len(names)} strings")
            bad = [nm for nm in names if any(c < 0x21 or c > 0x7e for c in nm)]
            if bad: probs.append(f"post: {len(bad)} names with non-printable/non-ascii bytes, e.g. {bad[0][:30]!r}")
            print(f"post: v2 {npg} glyphs, {len(names)} strings, maxlen {max([len(x) for x in names] + [0])}")
    if "name" in T:
        nm = T["name"]
        fmt, cnt, so = struct.unpack(">HHH", nm[:6])
        for i in range(cnt):
            pid, eid, lid, nid, ln, off = struct.unpack(">6H", nm[6 + 12 * i:18 + 12 * i])
            if so + off + ln > len(nm): probs.append(f"name record {i} (id {nid}) out of bounds: storage {so}+{off}+{ln} > {len(nm)}")
        print(f"name: fmt {fmt} count {cnt} storageOffset {so} len {len(nm)}")
    if "cmap" in T:
        cm = T["cmap"]
        v, nt = struct.unpack(">HH", cm[:4])
        for i in range(nt):
            pid, eid, off = struct.unpack(">HHI", cm[4 + 8 * i:12 + 8 * i])
            f = struct.unpack(">H", cm[off:off + 2])[0]
            if f in (4, 6, 0, 2):
                ln = struct.unpack(">H", cm[off + 2:off + 4])[0]
            else:
                ln = struct.unpack(">I", cm[off + 4:off + 8])[0]
            if off + ln > len(cm): probs.append(f"cmap subtable {i} fmt {f} overruns: {off}+{ln} > {len(cm)}")
            print(f"cmap: ({pid},{eid}) fmt {f} len {ln}")
    if "OS/2" in T:
        o = T["OS/2"]
        print(f"OS/2: version {struct.unpack('>H', o[:2])[0]} len {len(o)} wght {struct.unpack('>H', o[4:6])[0]} width {struct.unpack('>H', o[6:8])[0]}")
    if "fvar" in T:
        f = T["fvar"]
        maj, mi, aoff, res, ac, asz, ic, isz = struct.unpack(">8H", f[:16])
        print(f"fvar: axes {ac} instances {ic} isz {isz}")
        if aoff + ac * asz + ic * isz != len(f): probs.append(f"fvar size mismatch {aoff + ac * asz + ic * isz} != {len(f)}")
    try:
        r = subprocess.run(["fc-query", p], capture_output=True, timeout=60)
        print("fc-query (FreeType) rc:", r.returncode, r.stderr.decode()[:200].strip())
        if r.returncode != 0: probs.append("FreeType (fc-query) cannot open the font")
    except Exception as e:
        print("fc-query failed to run", e)
    for x in probs[:40]:
        print("PROBLEM:", x)
    print("RESULT:", "BAD" if probs else "ok")
    return 1 if probs else 0

if __name__ == "__main__":
    sys.exit(main(sys.argv[1]))
