"""b_manypts2_<N>.ufo: glyph A has N/100 contours of 100 on-curve points each (total N points; N > 65535 wraps endPtsOfContours u16)"""
import sys
from ufogen import *
n = int(sys.argv[1])
contours = []
for c in range(n // 100):
    x0, y0 = (c % 30) * 60, (c // 30) * 60
    pts = [(x0 + i, y0 + (i % 2), "line") for i in range(50)] + [(x0 + 49 - i, y0 + 20 + (i % 2), "line") for i in range(50)]
    contours.append(pts)
glyphs = {"space": glif("space", unicodes=[0x20]), "A": glif("A", contours=contours, unicodes=[0x41]), "B": glif("B", contours=BOX, unicodes=[0x42])}
write_ufo(f"b_manypts2_{n}.ufo", glyphs)
