#!/bin/bash
# usage: run_stale.sh <name> <source> [extra fontc args...]
# Same limits as ../../run1.sh (ulimit -v 8GB, timeout 120) but first places an OLD valid font
# (build/baseline.ttf) at the output path, then reports whether it is still there after the run.
HERE=/tmp/wt-huntB-out
FONTC="${FONTC:-/tmp/wt-huntB/target/debug/fontc}"
name="$1"; src="$2"; shift 2
out="$HERE/build/$name.ttf"; bd="$HERE/build/$name.build"; log="$HERE/build/$name.log"
rm -rf "$bd"; mkdir -p "$HERE/build"
cp "$HERE/build/baseline.ttf" "$out"
before=$(md5sum < "$out")
( ulimit -v 8000000; timeout -k 5 120 "$FONTC" "$src" --build-dir "$bd" -o "$out" "$@" ) >"$log" 2>&1
st=$?
if [ -s "$out" ]; then
  after=$(md5sum < "$out")
  if [ "$before" = "$after" ]; then state="OLD font still at output path (unchanged)"; else state="new font written"; fi
else
  state="no font at output path"
fi
echo "$name: exit=$st :: $state :: $(grep -a -m1 -E 'ERROR|panicked' "$log" | cut -c1-140)"
