#!/usr/bin/env python3
# build fuzz.ufo: glyph set from fea-rs simple_glyph_order.txt, all empty glyphs with width 500
import os, shutil, re
names=[l.strip() for l in open('/tmp/wt-huntB/fea-rs/test-data/simple_glyph_order.txt') if l.strip() and not l.startswith('#')]
extra=[l.strip() for l in open('/tmp/wt-huntB/fea-rs/test-data/compile-tests/mini-latin/glyph_order.txt') if l.strip() and not l.startswith('#')]
for e in extra:
    if e not in names: names.append(e)
shutil.rmtree('fuzz.ufo',ignore_errors=True)
os.makedirs('fuzz.ufo/glyphs')
open('fuzz.ufo/metainfo.plist','w').write('<?xml version="1.0" encoding="UTF-8"?>\n<plist version="1.0"><dict><key>creator</key><string>x</string><key>formatVersion</key><integer>3</integer></dict></plist>\n')
open('fuzz.ufo/fontinfo.plist','w').write('<?xml version="1.0" encoding="UTF-8"?>\n<plist version="1.0"><dict><key>familyName</key><string>Fuzz</string><key>styleName</key><string>Regular</string><key>unitsPerEm</key><integer>1000</integer><key>ascender</key><integer>800</integer><key>descender</key><integer>-200</integer></dict></plist>\n')
open('fuzz.ufo/layercontents.plist','w').write('<?xml version="1.0" encoding="UTF-8"?>\n<plist version="1.0"><array><array><string>public.default</string><string>glyphs</string></array></array></plist>\n')
def fn(n):
    s=''.join((c+'_' if c.isupper() else c) for c in n)
    s=s.replace('.','_dot_') if s.startswith('.') else s
    return s
contents=[];seen=set()
for i,n in enumerate(names):
    f='g%04d.glif'%i
    contents.append('<key>%s</key><string>%s</string>'%(n,f))
    open('fuzz.ufo/glyphs/'+f,'w').write('<?xml version="1.0" encoding="UTF-8"?>\n<glyph name="%s" format="2"><advance width="500"/></glyph>\n'%n)
open('fuzz.ufo/glyphs/contents.plist','w').write('<?xml version="1.0" encoding="UTF-8"?>\n<plist version="1.0"><dict>%s</dict></plist>\n'%''.join(contents))
open('fuzz.ufo/lib.plist','w').write('<?xml version="1.0" encoding="UTF-8"?>\n<plist version="1.0"><dict><key>public.glyphOrder</key><array>%s</array></dict></plist>\n'%''.join('<string>%s</string>'%n for n in names))
open('fuzz.ufo/features.fea','w').write('languagesystem DFLT dflt;\n')
print(len(names),'glyphs')
