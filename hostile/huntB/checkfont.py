#!/usr/bin/env python3
"""Minimal sfnt sanity check (no fontTools here): header, table directory bounds, required tables,
maxp.numGlyphs vs loca/hmtx sizes, head magic."""
import struct, sys
def check(p):
    d=open(p,'rb').read()
    if len(d)<12: return "too short"
    ver,n=struct.unpack(">IH",d[:6])
    if ver not in (0x00010000,0x4F54544F): return "bad sfnt version %08x"%ver
    tabs={}
    for i in range(n):
        rec=d[12+16*i:28+16*i]
        if len(rec)<16: return "truncated directory"
        tag,cs,off,ln=struct.unpack(">4sIII",rec)
        if off+ln>len(d): return "table %s out of bounds"%tag
        tabs[tag.decode('latin1')]=d[off:off+ln]
    for t in ("head","hhea","maxp","hmtx","cmap","name","post","OS/2"):
        if t not in tabs: return "missing "+t
    if struct.unpack(">I",tabs["head"][12:16])[0]!=0x5F0F3CF5: return "bad head magic"
    upem=struct.unpack(">H",tabs["head"][18:20])[0]
    ng=struct.unpack(">H",tabs["maxp"][4:6])[0]
    nh=struct.unpack(">H",tabs["hhea"][34:36])[0]
    if len(tabs["hmtx"])!=4*nh+2*(ng-nh): return "hmtx size mismatch"
    if "loca" in tabs:
        fmt=struct.unpack(">h",tabs["head"][50:52])[0]
        exp=(ng+1)*(4 if fmt else 2)
        if len(tabs["loca"])!=exp: return "loca size mismatch"
    return "OK glyphs=%d upem=%d tables=%s"%(ng,upem,",".join(sorted(tabs)))
for p in sys.argv[1:]:
    try: print(p, check(p))
    except Exception as e: print(p,"UNREADABLE",e)
