#!/bin/bash
# Reproduce every confirmed finding (F01..F23) of the fontc robustness audit of /tmp/wt-huntB (HEAD 1d0fac5).
# The full write-up (input, minimal edit, observed behaviour, responsible code, suggested fix per finding) was
# returned as the audit's report text; the one-line comments below name input + responsible function.
# Last complete output of this script: build/repro_all.out
#
# Inputs and the edit that produced them (base = inputs/baseline.ufo = resources/testdata/Static-Regular.ufo with
# features.fea reduced to 'languagesystem DFLT dflt;' + one kern rule):
#  F01 fea_liga_long.ufo          features.fea: sub bar x30000 by space;            fea-rs compile_ctx.rs:2323 sequence_enumerator_impl (recursion)
#  F02 fea_class_doubling.ufo     @c0=[bar plus]; @cK=[@cK-1 @cK-1]; K=1..40          fea-rs compile_ctx.rs:2213 resolve_glyph_class_literal
#  F03 fea_liga_product.ufo       sub [bar plus] x40 by space;                       fea-rs compile_ctx.rs:2314 sequence_enumerator (eager 2^40 product)
#  F04 glyphs/g_corner_nest20     gen_corner_nest.py: corner components nested        glyphs-reader font.rs:4039 insert_all_corner_components
#  F05 ufo/u_chain_1500.ufo       gen_components.py chain 1500 (acyclic chain)        fontbe glyphs.rs:776 bbox_of_composite (recursion, line 814)
#  F06 glyphs/g_eoc_1_4e15 etc.   gen_eoc_coincident.py / ufo/gen_eoc.py              fontir ir/erase_open_corners.rs:451 curve_curve_py_impl (unbounded subdivision)
#  F07 dspace_deep_lib.designspace static.designspace + 3000 nested <array> in <lib>  norad-0.18.4 serde_xml_plist.rs:67 read_xml_value (recursion)
#  F08 ufo/u_anchor_marker_huge   gen_anchor_marker.py: anchor '_99999999999'         fontir ir.rs:1226 ComponentMarker unbounded -> fontbe marks.rs:541 vec![None; max_index]
#  F09 fea_parser_loop.ufo        features.fea: 'anchorDef 0 (wght=900 abcde'         fea-rs parse/grammar/metrics.rs:137 loop never advances (eat_tag on 5-char ident)
#  F09b fea_parser_loop2.ufo      features.fea: 'sub [bar] - by space;'               fea-rs parse/grammar/glyph.rs:98-106 glyph_class_list_member returns true at ']' when next token is '-'
#  F10 fea_include_bomb.ufo       iK.fea includes iK+1.fea twice, K<40                fea-rs parse/context.rs:236 generate_recurse
#  F11 rules_many_axes.designspace 26 axes, 26 rules on distinct axes                 fontir feature_variations.rs:270 overlay_feature_variations
#  F12 comp_bomb_*.ufo, ufo/u_diamond_*  gen_component_bomb.py / gen_components.py diamond   fontir glyph.rs:468,183,642,335 + fontbe glyphs.rs:776
#  F13 glyphs/g_smart_double30    gen_smart_double.py                                 glyphs-reader font.rs:3944 instantiate_all_smart_components
#  F14 glyphs/g_liga_double40     gen_liga_double.py                                  fontir propagate_anchors.rs:273 anchors_traversing_components
#  F15 glyphs/g_bracket_kern1000  gen_bracket_kern.py 1000                            glyphs2fontir source.rs:1328 expand_kerning_to_brackets
#  F16 be/b_incl_devzero.ufo      features.fea: include(/dev/zero);                   fea-rs parse/source.rs:157 read_to_string
#  F17 be/b_bigname_20000.ufo, be/b_var2, be/b_gdefcarets.ufo                         fontbe orchestration.rs:1111 to_bytes = dump_table().ok()  (tables silently dropped)
#  F18 ufo/u_longname_256.ufo     glyph 'plus' renamed to 256 x 'a'                   fontbe post.rs:78 -> write-fonts post.rs:76 len() as u8
#  F19 be/b_manypts2_70000.ufo    one glyph, 700 contours x 100 points                fontbe metrics_and_limits.rs:198 as u16; glyphs.rs:420
#  F20 be/b_upem_0.glyphs         WghtVar.glyphs with unitsPerEm = 0                  glyphs-reader font.rs:3696 (no 16..16384 check)
#  F21 be/b_colr_70000.ufo        70000 colour layers                                 fontbe colr.rs:334,434 as u16 (and :244 as u8 for v1)
#  F22 be/run_stale.sh            old font at -o, failing build                       fontc lib.rs run/init_paths never remove the old output
#  F23 be/run_ir.sh               --emit-ir --emit-timing, threads.svg unwritable     fontc lib.rs:172-192 font persisted before the last fallible step
#
#   ./repro.sh            run everything (about 25 minutes: the hang cases run into their timeout)
#   ./repro.sh quick      only the cases that finish in a few seconds (signals, bogus fonts, stale font)
#   FONTC=/path/to/fontc ./repro.sh     use another binary (default: /tmp/wt-huntB/target/debug/fontc)
# Every run is wrapped in `ulimit -v 8000000` and `timeout` by run1.sh; logs land in build/<name>.log.
# Output line: <name>: exit=<status|n/a> signal=<n|none> elapsed=.. peakRSS=.. font=<no|yes(size)> :: <first diagnostic>
#   signal=6 + "overflowed its stack" / "memory allocation of N bytes failed"  -> class (1)
#   exit=124(timeout) with large or growing RSS                                  -> class (2)
#   exit=0 font=yes followed by a PROBLEM line from the checker                  -> class (3)
cd "$(dirname "$0")"
I=inputs
mode="${1:-all}"
run() { ./run1.sh "$@"; }
check() { python3 $I/be/check_font.py "build/$1.ttf" 2>&1 | grep -E "PROBLEM|RESULT" | sed 's/^/        /'; python3 checkfont.py "build/$1.ttf" | sed 's/^/        /'; }

echo "### baseline (sanity: must be exit=0 font=yes)"
run baseline $I/baseline.ufo 60

echo "### (1) killed by a signal"
run F01_fea_liga_long            $I/fea_liga_long.ufo 60                 # stack overflow, sequence_enumerator_impl
run F05_component_chain_1500     $I/ufo/u_chain_1500.ufo 60              # stack overflow, bbox_of_composite
run F06_eoc_huge_coords_glyphs   $I/glyphs/g_eoc_1_4e15.glyphs 60        # stack overflow, curve_curve_py_impl
run F07_dspace_deep_lib          $I/dspace_deep_lib.designspace 60       # stack overflow, norad serde_xml_plist
run F08_anchor_component_marker  $I/ufo/u_anchor_marker_huge.ufo 60      # 800 GB allocation, marks.rs vec![None; max_index]
if [ "$mode" != quick ]; then
run F02_fea_class_doubling       $I/fea_class_doubling.ufo 240           # alloc failure after ~2 min / 6.5 GB
run F03_fea_liga_product         $I/fea_liga_product.ufo 240             # alloc failure after ~2 min / 6.8 GB
run F04_corner_nest20            $I/glyphs/g_corner_nest20.glyphs 240    # alloc failure after ~2.5 min / 7 GB
fi

if [ "$mode" != quick ]; then
echo "### (2) hang / runaway memory on a tiny input (60 s timeout each; look at peakRSS)"
run F09_fea_parser_loop          $I/fea_parser_loop.ufo 60               # infinite loop, ~5 GB/min
run F09b_fea_parser_loop2        $I/fea_parser_loop2.ufo 60              # second infinite loop: '[bar] -'
run F10_fea_include_bomb         $I/fea_include_bomb.ufo 60
run F11_rules_many_axes          $I/rules_many_axes.designspace 60
run F12a_comp_bomb_mixed         $I/comp_bomb_mixed.ufo 60               # convert_components_to_contours
run F12b_comp_bomb_pure          $I/comp_bomb_pure.ufo 60                # bbox_of_composite, CPU only
run F12c_diamond_mixed_root      $I/ufo/u_diamond_mixed_40.ufo 60        # resolve_inconsistencies, CPU only
run F12d_diamond_flatten         $I/ufo/u_diamond_flat_28.ufo 60         # flatten_glyph
run F12e_diamond_skip_export     $I/ufo/u_diamond_skip_26.ufo 120        # flatten_non_export_components_for_glyph (aborts ~1.5 min)
run F13_smart_component_doubling $I/glyphs/g_smart_double30.glyphs 60
run F14_liga_anchor_doubling     $I/glyphs/g_liga_double40.glyphs 60
run F06b_eoc_1e13_hang           $I/glyphs/g_eoc_1_1e13.glyphs 60
run F06c_eoc_in_range_slow       $I/ufo/u_eoc_32767x10.ufo 120
run F15_bracket_kern_quadratic   $I/glyphs/g_bracket_kern1000.glyphs 300 # finishes: ~3 min, ~4 GB
run F16_include_dev_zero         $I/be/b_incl_devzero.ufo 60
fi

echo "### (3) exit 0 with a bogus font"
run F17a_name_table_dropped      $I/be/b_bigname_20000.ufo 60;            check F17a_name_table_dropped
run F17b_name_dropped_instances  $I/be/b_var2/wght_var.designspace 120;   check F17b_name_dropped_instances
run F17c_gdef_dropped            $I/be/b_gdefcarets.ufo 120;              check F17c_gdef_dropped
run F18_post_long_glyph_name     $I/ufo/u_longname_256.ufo 60;            check F18_post_long_glyph_name
run F19_glyph_70000_points       $I/be/b_manypts2_70000.ufo 120;          check F19_glyph_70000_points
run F20_upem_0_glyphs            $I/be/b_upem_0.glyphs 60;                check F20_upem_0_glyphs
run F21_colr_70000_layers        $I/be/b_colr_70000.ufo 120
python3 - <<'EOF'
import struct
try:
    d=open('build/F21_colr_70000_layers.ttf','rb').read(); n=struct.unpack(">H",d[4:6])[0]
    for i in range(n):
        tag,cs,off,ln=struct.unpack(">4sIII",d[12+16*i:28+16*i])
        if tag==b'COLR':
            c=d[off:off+ln]; ver,nb,bo,lo,nl=struct.unpack(">HHIIH",c[:14])
            print("        COLR header numLayerRecords=%d but %d records are present; base record=%s"%(nl,(len(c)-lo)//4,struct.unpack(">HHH",c[bo:bo+6])))
except Exception as e: print("        (no COLR check: %s)"%e)
EOF

echo "### (4) exit non-zero with a font at the output path"
bash $I/be/run_stale.sh F22_stale_output $PWD/$I/be/b_cp_dup.ufo
bash $I/be/run_ir.sh F23_emit_ir_timing_fail $PWD/$I/baseline.ufo svgdir --emit-timing
