#!/bin/bash
# usage: run1.sh <name> <source> [timeout-secs] [extra fontc args...]
# Runs fontc under ulimit -v 8GB and a timeout; prints status, signal, time, peak RSS, and whether a font was left behind.
HERE="$(cd "$(dirname "$0")" && pwd)"
FONTC="${FONTC:-/tmp/wt-huntB/target/debug/fontc}"
name="$1"; src="$2"; to="${3:-120}"; if [ $# -ge 3 ]; then shift 3; else shift $#; fi
out="$HERE/build/$name.ttf"; bd="$HERE/build/$name.build"
rm -rf "$out" "$bd"; mkdir -p "$HERE/build"
log="$HERE/build/$name.log"
( ulimit -v 8000000; /usr/bin/time -v timeout -k 5 "$to" "$FONTC" "$src" --build-dir "$bd" -o "$out" "$@" ) >"$log" 2>&1
# /usr/bin/time reports the child's exit status in its output
st=$(grep -a "Exit status" "$log" | awk '{print $3}')
sig=$(grep -a "Command terminated by signal" "$log" | awk '{print $NF}')
[ -n "$sig" ] && st="n/a"
[ "$st" = 124 ] && st="124(timeout)"
el=$(grep -a "Elapsed" "$log" | awk '{print $NF}')
rss=$(grep -a "Maximum resident" "$log" | awk '{print $NF}')
font=no; [ -s "$out" ] && font="yes($(stat -c %s "$out")B)"
msg=$(grep -a -m1 -E "overflowed its stack|memory allocation of|panicked|ERROR" "$log" | cut -c1-160)
echo "$name: exit=${st:-none} signal=${sig:-none} elapsed=$el peakRSS=${rss}KB font=$font :: $msg"
