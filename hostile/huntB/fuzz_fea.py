#!/usr/bin/env python3
"""Mutational fuzz of features.fea through the fontc CLI. Flags signals, timeouts, exit0 w/o font, exit!=0 with font."""
import os, random, re, subprocess, sys, glob, shutil, time, resource
FONTC='/tmp/wt-huntB/target/debug/fontc'
seed=int(sys.argv[1]); n=int(sys.argv[2]); tmo=int(sys.argv[3]) if len(sys.argv)>3 else 20
random.seed(seed)
corpus=sorted(glob.glob('/tmp/wt-huntB/fea-rs/test-data/**/*.fea',recursive=True))
corpus=[c for c in corpus if os.path.getsize(c)<20000]
work='work_%d'%seed
shutil.rmtree(work,ignore_errors=True); shutil.copytree('fuzz.ufo',work+'/f.ufo')
os.makedirs('hits',exist_ok=True)
tok=re.compile(r"\s+|[A-Za-z_@\\.][\w.\-]*|-?\d+|.",re.S)
INTEREST=['[',']','{','}','(',')','<','>',"'",';','-','@','\\','#','"','99999999999999999999','-32769','65536','0','by','from','sub','pos','lookup','feature','include(','NULL','enum','ignore','markClass','mark','base','ligature','cursive','anchor','device','useExtension','table','name','script','language','languagesystem','subtable','anon','conditionset','variation','contourpoint','ligComponent','rsub','lookupflag','MarkAttachmentType','UseMarkFilteringSet','parameters','featureNames','cvParameters','sizemenuname','valueRecordDef','anchorDef','(wght=1:1)','$[','${','a-z','\\1-\\999']
def mutate(s):
    t=tok.findall(s)
    if not t: t=[';']
    for _ in range(random.choice([1,1,2,3,5,8])):
        if not t: t=[";"]
        op=random.randrange(9); i=random.randrange(len(t))
        if op==0: del t[i]
        elif op==1: t.insert(i,random.choice(INTEREST))
        elif op==2: t[i]=random.choice(INTEREST)
        elif op==3:
            j=random.randrange(len(t)); t[i],t[j]=t[j],t[i]
        elif op==4:
            j=min(len(t),i+random.randrange(1,12)); t[i:i]=t[i:j]*random.choice([2,3,50,1000])
        elif op==5:
            j=min(len(t),i+random.randrange(1,30)); del t[i:j]
        elif op==6: t[i]=t[i]*random.choice([2,100,5000])
        elif op==7:
            o=tok.findall(open(random.choice(corpus),errors='replace').read()); 
            if o:
                k=random.randrange(len(o)); t[i:i]=o[k:k+random.randrange(1,40)]
        elif op==8: t=t[:i]
    return ''.join(t)
def lim():
    resource.setrlimit(resource.RLIMIT_AS,(4_000_000_000,4_000_000_000))
stats={}
for it in range(n):
    src=open(random.choice(corpus),errors='replace').read()
    fea=mutate(src)
    if len(fea)>200000: continue
    open(work+'/f.ufo/features.fea','w').write(fea)
    out=work+'/o.ttf'
    if os.path.exists(out): os.remove(out)
    t0=time.time()
    try:
        p=subprocess.run([FONTC,work+'/f.ufo','--build-dir',work+'/b','-o',out],capture_output=True,timeout=tmo,preexec_fn=lim)
        rc=p.returncode; err=p.stderr.decode(errors='replace')
    except subprocess.TimeoutExpired as e:
        rc='timeout'; err=''
    dt=time.time()-t0
    has=os.path.exists(out) and os.path.getsize(out)>0
    kind=None
    if rc=='timeout': kind='timeout'
    elif isinstance(rc,int) and rc<0: kind='signal%d'%-rc
    elif rc==0 and not has: kind='exit0_nofont'
    elif rc!=0 and has: kind='fail_with_font'
    elif dt>8: kind='slow%.0fs'%dt
    key=kind or ('ok' if rc==0 else ('panic' if 'panicked' in err else 'err'))
    stats[key]=stats.get(key,0)+1
    if kind:
        fn='hits/%s_s%d_i%d.fea'%(kind,seed,it)
        open(fn,'w').write(fea)
        print('HIT',kind,fn,err[-300:].replace('\n',' | '),flush=True)
print('done',stats)
